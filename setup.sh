#!/bin/sh
# Offline setup after a fresh restore: make hypothesis importable for /venv/bin/python (installed beside the
# harness from the local wheelhouse when /venv lacks it) and validate the committed data files.  Nothing is fetched.
HERE=$(cd "$(dirname "$0")" && pwd)
cd "$HERE" || exit 2
PY=${VERIF_PYTHON:-/venv/bin/python}
export PIP_NO_INDEX=1
if ! PYTHONPATH="$HERE/.deps" "$PY" -c "import hypothesis" 2>/dev/null; then
  "$PY" -m pip install -q --no-index --find-links /opt/veriftools/wheels --target "$HERE/.deps" hypothesis || exit 2
fi
# atheris drives the coverage-guided stream of C10; best effort (without it that stream is recorded as unavailable, nothing fails)
if ! PYTHONPATH="$HERE/.deps" "$PY" -c "import atheris" 2>/dev/null; then
  "$PY" -m pip install -q --no-index --find-links /opt/veriftools/wheels --target "$HERE/.deps" atheris 2>/dev/null || echo "setup: atheris not installable, C10 runs without its coverage-guided stream"
fi
PYTHONPATH="$HERE/.deps" "$PY" - <<'PY' || exit 2
import json, glob, sys
import hypothesis
json.load(open("known_findings.json"))
json.load(open("MANIFEST.json"))
for f in glob.glob("corpus/*.jsonl"):
    for line in open(f):
        json.loads(line)
for f in glob.glob("replays/regress/*/*.json"):
    json.load(open(f))
print("setup ok: hypothesis", hypothesis.__version__)
PY
