"""Hypothesis strategies over the SQL IR (vlib/sqlir.py).

Main-stream restrictions (DESIGN 3.2): statement-wide unique aliases, no two equal-text subqueries, pairwise distinct output
names, references into a derived table / CTE only to columns it defines, fresh unqualified names per scope (only where the
property determines the answer: a single relation in scope, or only base tables), star only as the sole select item.
`tables_only=True` (C01) additionally places subqueries in the select list, CASE arms, function arguments and HAVING, and
several subqueries in one predicate - positions where only table lineage is compared."""
from hypothesis import strategies as st
from vlib.sqlir import *

TABLES = [(None, "ta"), (None, "tb"), (None, "tc"), ("s1", "td"), ("s1", "tf"), ("s2", "te"), ("s2", "tg")]
COLS = ["c1", "c2", "c3", "k"]
UNQ = ["u1", "u2"]          # names only ever used unqualified in multi-table scopes
CTES = ["q1", "q2", "q3"]

class Ctx:
    def __init__(self, tables_only=False): self.n = 0; self.u = 0; self.cte_q = {}; self.bodies = set(); self.tables_only = tables_only; self.feat = set()
    def alias(self):
        self.n += 1; return f"a{self.n}"
    def unq(self):
        self.u += 1; return f"u{self.u}"

def out_cols(q, ctx):
    """output column names of a query, or None when unknown (star over base table)"""
    if isinstance(q, With): return out_cols(q.body, ctx)
    if isinstance(q, SetOp): return out_cols(q.branches[0], ctx)
    names = []
    for it in q.items:
        if isinstance(it.e, Star): return None
        e = it.e
        if it.alias is None and isinstance(e, Cast) and isinstance(e.e, Col): e = e.e  # col::type keeps the column's name
        names.append((it.alias or e.name).lower())
    return names

def rel_cols(f, ctx):
    if isinstance(f, T): return None
    if isinstance(f, CteRef): return out_cols(ctx.cte_q[f.name], ctx)
    return out_cols(f.q, ctx)

@st.composite
def expr(draw, quals, depth, unq_ok):
    """quals: list of (qualifier, cols|None); unq_ok: ('any', cols|None) single relation, ('pool', [names]) all base tables, None"""
    def col():
        choices = list(quals)
        if unq_ok: choices.append(None)
        q = draw(st.sampled_from(choices))
        if q is None:
            if unq_ok[0] == "pool": return Col(None, draw(st.sampled_from(unq_ok[1])))
            return Col(None, draw(st.sampled_from(unq_ok[1] or COLS)))
        return Col(q[0], draw(st.sampled_from(q[1] or COLS)))
    if depth <= 0: return col()
    k = draw(st.integers(0, 8))
    sub = lambda: draw(expr(quals, depth - 1, unq_ok))
    if k <= 2: return col()
    if k == 3: return Func(draw(st.sampled_from(["coalesce", "max", "concat", "nvl"])), (sub(),) + tuple(draw(st.lists(st.one_of(expr(quals, depth - 1, unq_ok), st.just(Lit("0"))), max_size=2))))
    if k == 4: return Bin(draw(st.sampled_from(["+", "-", "*", "||"])), sub(), draw(st.one_of(expr(quals, depth - 1, unq_ok), st.just(Lit("1")))))
    if k == 5: return Case(((Cmp(sub(), ">", Lit("0")), sub()),), draw(st.one_of(st.none(), st.just(Lit("0")), expr(quals, depth - 1, unq_ok))))
    if k == 6: return Cast(sub(), "int", "cast")
    if k == 7: return Win(draw(st.sampled_from(["sum", "max"])), (draw(expr(quals, 0, unq_ok)),), (draw(expr(quals, 0, unq_ok)),), (draw(expr(quals, 0, unq_ok)),))
    return Paren(sub())

def ref_name(f):
    if isinstance(f, T): return f.alias or (f"{f.schema}.{f.name}" if f.schema else f.name)
    if isinstance(f, CteRef): return f.alias or f.name
    return f.alias

@st.composite
def from_item(draw, ctx, depth, ctes, bare_used, nojoin):
    k = draw(st.integers(0, 9))
    def table():
        cand = [t for t in TABLES if t[1] not in bare_used]
        s, n = draw(st.sampled_from(cand)); bare_used.add(n)
        alias = ctx.alias() if draw(st.booleans()) else None
        return T(s, n, alias, draw(st.booleans()))
    if k <= 5 or (depth <= 0 and not ctes): return table()
    if k <= 7 and ctes:
        n = draw(st.sampled_from(ctes))
        if n not in bare_used:
            bare_used.add(n)
            alias = ctx.alias() if draw(st.booleans()) else None
            return CteRef(n, alias, draw(st.booleans()))
        return CteRef(n, ctx.alias(), draw(st.booleans()))
    if depth > 0:
        q = draw(query(ctx, depth - 1, ctes, allow_with=False, nojoin=nojoin))
        txt = r_query(q)
        if txt not in ctx.bodies:
            ctx.bodies.add(txt)
            return Derived(q, ctx.alias(), draw(st.booleans()))
    return table()

@st.composite
def select(draw, ctx, depth, ctes, nitems=None, nojoin=False):
    bare_used = set()
    shape = draw(st.sampled_from(["single", "single", "comma2", "comma3", "join1", "join1", "join2", "join4", "mixed1", "mixed2"])) if not nojoin else draw(st.sampled_from(["single", "comma2", "comma3"]))
    has_join = shape.startswith("join") or shape.startswith("mixed")
    ctx.feat.add("from:" + shape)
    inner_nojoin = nojoin or has_join
    groups = []; items_in_scope = []
    if shape.startswith("comma") or shape == "single":
        for _ in range({"single": 1, "comma2": 2, "comma3": 3}[shape]):
            f = draw(from_item(ctx, depth, ctes, bare_used, inner_nojoin)); items_in_scope.append(f); groups.append(FromGroup(f, ()))
    else:
        if shape.startswith("mixed") and shape[-1] == "2":  # a comma item BEFORE the joined group
            f0 = draw(from_item(ctx, depth, ctes, bare_used, inner_nojoin)); items_in_scope.append(f0); groups.append(FromGroup(f0, ()))
        first = draw(from_item(ctx, depth, ctes, bare_used, inner_nojoin)); items_in_scope.append(first)
        joins = []
        for _ in range(int(shape[-1]) if shape.startswith("join") else 1):
            it = draw(from_item(ctx, depth, ctes, bare_used, inner_nojoin))
            kind = draw(st.sampled_from(["JOIN", "INNER JOIN", "LEFT JOIN", "LEFT OUTER JOIN", "RIGHT JOIN", "FULL OUTER JOIN", "CROSS JOIN"]))
            if kind == "CROSS JOIN": cond = None
            else:
                l = draw(st.sampled_from(items_in_scope))
                cond = draw(st.sampled_from([("on", Cmp(Col(ref_name(l), "k"), "=", Col(ref_name(it), "k"))), ("using", ("k",))]))
            joins.append(Join(kind, it, cond)); items_in_scope.append(it)
        groups.append(FromGroup(first, tuple(joins)))
        if shape.startswith("mixed"):  # a comma item AFTER the joined group
            f2 = draw(from_item(ctx, depth, ctes, bare_used, inner_nojoin)); items_in_scope.append(f2); groups.append(FromGroup(f2, ()))
    names_all = [(ref_name(f), rel_cols(f, ctx)) for f in items_in_scope]
    # a named column cannot be traced through a subquery that only selects '*' (only the star is propagated): such relations
    # are referenced through stars only, never through named columns
    names = [(ref_name(f), rel_cols(f, ctx)) for f in items_in_scope if isinstance(f, T) or rel_cols(f, ctx) is not None]
    all_base = all(isinstance(f, T) for f in items_in_scope)
    if len(items_in_scope) == 1:
        unq_ok = ("any", names[0][1]) if names else None
    else:
        unq_ok = ("pool", [ctx.unq(), ctx.unq()]) if all_base else None
    star_ok = (len(items_in_scope) == 1 and not isinstance(items_in_scope[0], CteRef)) or all_base
    n = nitems or draw(st.integers(1, 3))
    if nitems is None and star_ok and (draw(st.integers(0, 5)) == 0 or not names):
        items = (Item(Star(draw(st.sampled_from([None] + [n for n, _ in names_all])))),)
    elif not names:
        items = tuple(Item(Lit(str(i + 1)), f"o{i+1}", True) for i in range(n))
    else:
        items = []; seen = set()
        for i in range(n):
            e = draw(expr(names, draw(st.integers(0, 2)), unq_ok))
            if n > 1 and draw(st.integers(0, 9)) == 0: e = Lit(draw(st.sampled_from(["1", "'x'", "NULL", "CURRENT_DATE"])))  # a constant select item: no lineage, but it holds a position
            alias = f"o{i+1}" if (not isinstance(e, Col) or draw(st.booleans())) else None
            nm = (alias or e.name).lower()
            if nm in seen or nm in {f"o{j+1}" for j in range(i + 1, n)}:  # output names pairwise distinct, also w.r.t. later aliases
                alias = f"o{i+1}"; nm = alias
            if nm in seen: alias = f"p{i+1}"; nm = alias
            seen.add(nm)
            items.append(Item(e, alias, draw(st.booleans())))
        items = tuple(items)
    if not names: names = [(n_, COLS) for n_, _ in names_all]  # predicates (no lineage) may still name columns
    where = None
    w = draw(st.integers(0, 5))
    if w == 1: where = Cmp(draw(expr(names, 0, unq_ok)), "=", Lit("1"))
    elif w >= 3 and depth > 0:
        sub = draw(query(ctx, depth - 1, ctes, allow_with=False, nitems=1))
        p = draw(st.sampled_from(["in", "exists", "cmp", "notin", "and", "or", "paren"]))
        c = draw(expr(names, 0, unq_ok))
        base = {"in": InSub(c, sub), "notin": InSub(c, sub, True), "exists": Exists(sub), "cmp": CmpSub(c, "=", sub)}.get(p)
        if base is None:
            inner = InSub(c, sub)
            if p == "and": base = BoolOp("AND", Cmp(c, ">", Lit("0")), inner)
            elif p == "or": base = BoolOp("OR", inner, Cmp(c, ">", Lit("0")))
            else: base = PParen(BoolOp("AND", inner, Cmp(c, ">", Lit("0"))))
        where = base
        ctx.feat.add("where_subquery:" + p)
    group_by, having = (), None
    if ctx.tables_only and depth > 0:
        k2 = draw(st.integers(0, 13))
        mk = lambda: draw(query(ctx, depth - 1, ctes, allow_with=False, nitems=1))  # noqa: E731
        c = draw(expr(names, 0, unq_ok))
        if k2 == 0:
            where = BoolOp("AND", InSub(c, mk()), Exists(mk())); ctx.feat.add("two_subqueries_in_predicate")
        elif k2 == 1:
            where = BoolOp("OR", CmpSub(c, ">", mk()), BoolOp("AND", InSub(c, mk(), True), Exists(mk(), True))); ctx.feat.add("three_subqueries_in_predicate")
        elif k2 == 2:
            where = Not(Exists(mk())); ctx.feat.add("not_exists")
        elif k2 == 3:
            where = PParen(PParen(InSub(c, mk()))); ctx.feat.add("nested_parens_subquery")
        elif k2 == 4:
            items = items + (Item(ScalarSub(mk()), "sq1"),); ctx.feat.add("scalar_subquery_select_item")
        elif k2 == 5:
            items = items + (Item(Case(((CmpSub(c, "=", mk()), ScalarSub(mk())), (Cmp(c, ">", Lit("5")), ScalarSub(mk()))), None), "cs1"),)
            ctx.feat.add("case_arm_subqueries")
        elif k2 == 6:
            items = items + (Item(Func("coalesce", (ScalarSub(mk()), Lit("0"))), "fn1"),); ctx.feat.add("function_arg_subquery")
        elif k2 == 7:
            group_by = (c,); having = CmpSub(Func("count", (Lit("1"),)), ">", mk()); ctx.feat.add("having_subquery")
    return Select(items, tuple(groups), where, draw(st.sampled_from([False, False, True])), group_by, having)

@st.composite
def query(draw, ctx, depth, ctes=(), allow_with=True, nitems=None, nojoin=False):
    k = draw(st.integers(0, 9))
    if k <= 5 or depth <= 0: return draw(select(ctx, depth, list(ctes), nitems, nojoin))
    if k <= 7:
        n = nitems or draw(st.integers(1, 3))
        nb = draw(st.integers(2, 3))
        return SetOp(tuple(draw(st.sampled_from(["UNION", "UNION ALL"])) for _ in range(nb - 1)), tuple(draw(select(ctx, depth - 1, list(ctes), n, nojoin)) for _ in range(nb)))
    if allow_with:
        names = []; defs = []
        for i in range(draw(st.integers(1, 2))):
            if len(ctes) + i >= len(CTES): break
            nm = CTES[len(ctes) + i]
            cq = draw(query(ctx, depth - 1, tuple(ctes) + tuple(names), allow_with=False))
            txt = r_query(cq)
            if txt in ctx.bodies: break  # no two equal-text subqueries (they are one node for sqllineage: finding K-eqtext-subq)
            ctx.bodies.add(txt)
            ctx.cte_q[nm] = cq
            defs.append((nm, cq))
            names.append(nm)
        if defs:
            return With(tuple(defs), draw(query(ctx, depth - 1, tuple(ctes) + tuple(names), allow_with=False, nitems=nitems)))
    return draw(select(ctx, depth, list(ctes), nitems, nojoin))

@st.composite
def stmt(draw, depth=2):
    ctx = Ctx()
    q = draw(query(ctx, depth))
    tgt = T(*draw(st.sampled_from([(None, "tgt"), ("s9", "tgt")])))
    k = draw(st.integers(0, 5))
    if k == 0: return Bare(q)
    if k <= 2: return Insert(tgt, None, q, "INSERT INTO", False)
    if k == 3: return Ctas(tgt, q, draw(st.sampled_from(["CREATE TABLE", "CREATE TABLE IF NOT EXISTS"])), draw(st.booleans()))
    if k == 4: return CreateView(tgt, None, q, "CREATE VIEW", False)
    return Insert(tgt, None, q, "INSERT INTO", False)


# ---------------------------------------------------------------------------------------------- C01: all statement kinds
INSERT_STYLES = ["INSERT INTO", "INSERT INTO", "INSERT INTO TABLE", "INSERT OVERWRITE TABLE", "INSERT OVERWRITE"]
NOOPS = ["DELETE FROM ta WHERE c1 = 1", "TRUNCATE TABLE ta", "DELETE FROM s1.td", "USE db1", "SHOW TABLES", "DESCRIBE ta",
         "SET x = 1", "ANALYZE TABLE ta COMPUTE STATISTICS", "REFRESH TABLE ta", "CACHE TABLE ta", "UNCACHE TABLE ta",
         "DELETE FROM ta WHERE c1 IN (SELECT c1 FROM tb)", "TRUNCATE ta", "SHOW CREATE TABLE ta", "DROP FUNCTION f1"]

@st.composite
def simple_from(draw, ctx, depth, min_items=1):
    """FROM clause for UPDATE/MERGE: base tables (optionally aliased) and derived tables"""
    bare_used = set()
    n = draw(st.integers(min_items, 2))
    groups = []; items = []
    for i in range(n):
        f = draw(from_item(ctx, depth, [], bare_used, True))
        items.append(f)
        if i == 1 and draw(st.booleans()):
            l = items[0]
            groups[-1] = FromGroup(groups[-1].first, (Join(draw(st.sampled_from(["JOIN", "LEFT JOIN", "INNER JOIN"])), f,
                                                           ("on", Cmp(Col(ref_name(l), "k"), "=", Col(ref_name(f), "k")))),))
        else:
            groups.append(FromGroup(f, ()))
    return tuple(groups), items

@st.composite
def stmt_tables(draw, depth=2):
    """any supported statement kind; returns (stmt, features)"""
    ctx = Ctx(tables_only=True)
    tgt = T(*draw(st.sampled_from([(None, "tgt"), ("s9", "tgt"), (None, "ta"), ("s1", "tz")])))
    k = draw(st.integers(0, 19))
    if k <= 1:
        s = Bare(draw(query(ctx, depth)))
    elif k <= 6:
        s = Insert(tgt, None, draw(query(ctx, depth)), draw(st.sampled_from(INSERT_STYLES)), draw(st.sampled_from([False, False, True])))
    elif k <= 8:
        s = Ctas(tgt, draw(query(ctx, depth)), draw(st.sampled_from(["CREATE TABLE", "CREATE TABLE IF NOT EXISTS", "CREATE OR REPLACE TABLE"])), draw(st.booleans()))
    elif k <= 10:
        s = CreateView(tgt, None, draw(query(ctx, depth)), draw(st.sampled_from(["CREATE VIEW", "CREATE OR REPLACE VIEW", "CREATE VIEW IF NOT EXISTS"])), draw(st.sampled_from([False, False, True])))
    elif k == 11:
        q = draw(query(ctx, depth, allow_with=True))
        if isinstance(q, With):
            s = CteInsert(q.ctes, Insert(tgt, None, q.body, "INSERT INTO", False))
        else:
            s = Insert(tgt, None, q, "INSERT INTO", False)
    elif k <= 13:
        frm, items = draw(simple_from(ctx, depth))
        src = items[0]
        tt = T(tgt.schema, tgt.name, ctx.alias() if draw(st.booleans()) else None, draw(st.booleans()))
        s = Update(tt, (("c1", Col(ref_name(src), "c1")),) + ((("c2", Col(ref_name(items[-1]), "c2")),) if draw(st.booleans()) else ()),
                   frm, Cmp(Col(ref_name(src), "k"), "=", Col(tt.alias or r_tname(tt), "k")) if draw(st.booleans()) else None)
    elif k <= 15:
        bare_used = set()
        src = draw(from_item(ctx, depth, [], bare_used, True))
        if isinstance(src, T) and src.alias is None and draw(st.booleans()):
            src = T(src.schema, src.name, ctx.alias(), True)
        tt = T(tgt.schema, tgt.name, ctx.alias() if draw(st.booleans()) else None, True)
        sn, tn = ref_name(src), tt.alias or r_tname(tt)
        upd = ((("c1", Col(sn, "c1")),) if draw(st.booleans()) else ())
        ins = ((("k", Col(sn, "k")), ("c1", Col(sn, "c1"))) if (draw(st.booleans()) or not upd) else ())
        s = Merge(tt, src, Cmp(Col(tn, "k"), "=", Col(sn, "k")), upd, ins)
    elif k == 16:
        s = CreateLike(tgt, T(*draw(st.sampled_from(TABLES))), draw(st.sampled_from(["LIKE", "LIKE", "CLONE"])))
    elif k == 17:
        q = draw(select(ctx, depth, [], None, False))
        s = SelectInto(tgt, q)
    elif k == 18:
        s = InsertValues(tgt, draw(st.integers(1, 3)))
    else:
        s = Noop(draw(st.sampled_from(NOOPS)))
    ctx.feat.add("kind:" + type(s).__name__)
    return s, sorted(ctx.feat)
