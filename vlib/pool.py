"""Result pool shared by the invariant checks (C06, C18): every analysis result produced by the harvested corpus (test-suite
SQL in its dialect, also under ansi, with the metadata the tests used), the bundled TPC-DS scripts and the generators of
C01-C05 (IR statements, C03 SQL histories, C11 set-heavy templates, chained scripts)."""
from __future__ import annotations

import json

from vlib import corpus, runner


def corpus_cases(ctx):
    out = []
    for e in corpus.tests():
        if e.get("md_class") and e["md_class"] != "DummyMetaDataProvider":
            continue
        out.append({"sql": e["sql"], "dialect": e["dialect"], "metadata": e.get("metadata"), "origin": "corpus"})
        if e["dialect"] != "ansi" and e.get("sqlfluff", True):
            out.append({"sql": e["sql"], "dialect": "ansi", "metadata": e.get("metadata"), "origin": "corpus@ansi"})
    tp = corpus.tpcds()
    if ctx.quick:
        tp = tp[(ctx.seed % 6):: 6]
    out += [{"sql": e["sql"], "dialect": "ansi", "metadata": None, "origin": "tpcds"} for e in tp]
    return out


def generated_cases(ctx, n):
    """Hypothesis is the seeded generator; the invariants are checked afterwards on every result"""
    from hypothesis import strategies as st

    from vlib import sqlgen
    from vlib import sqlir as ir
    from vlib.props import C03, C11

    out = []

    def body(case, res):
        kind, payload = case
        if kind == "ir":
            out.append({"sql": ir.r_stmt(payload), "dialect": "ansi", "metadata": None, "origin": "gen:ir"})
        elif kind == "ir_tables":
            out.append({"sql": ir.r_stmt(payload[0]), "dialect": "ansi", "metadata": None, "origin": "gen:ir_tables"})
        elif kind == "c03":
            hist, dialect, sql = C03.build_sql_case(payload)
            out.append({"sql": sql, "dialect": dialect, "metadata": None, "origin": "gen:c03"})
        elif kind == "c11":
            c = C11.build_gen(payload)
            c["origin"] = "gen:c11"
            out.append(c)
        elif kind == "chain":
            stmts = [ir.r_stmt(s) for s in payload]
            out.append({"sql": ";\n".join(stmts), "dialect": "ansi", "metadata": None, "origin": "gen:chain"})
        return None

    strat = st.one_of(
        st.tuples(st.just("ir"), sqlgen.stmt(1)),
        st.tuples(st.just("ir"), sqlgen.stmt(2)),
        st.tuples(st.just("ir_tables"), sqlgen.stmt_tables(1)),
        st.tuples(st.just("c03"), C03.sql_strategy()),
        st.tuples(st.just("c11"), C11.gen_strategy()),
        st.tuples(st.just("chain"), st.lists(sqlgen.stmt(1), min_size=2, max_size=3)),
    )
    runner.hyp_run(strat, body, runner.Res(), seed=runner.derive_seed(ctx.seed, "pool"), max_examples=n, ctx=ctx)
    seen, uniq = set(), []
    for c in out:
        k = json.dumps(c, sort_keys=True)
        if k not in seen:
            seen.add(k)
            uniq.append(c)
    return uniq


CRAFTED = [
    # a statement that writes a table without reading any table still carries column lineage into it; then the table is read
    ("ansi", "UPDATE t SET a = b; INSERT INTO u SELECT c FROM t"),
    ("ansi", "INSERT INTO t SELECT sq.x FROM (SELECT 1 AS x) sq; INSERT INTO u SELECT x FROM t"),
    ("ansi", "INSERT INTO t VALUES (1, 2); INSERT INTO u SELECT * FROM t; INSERT INTO v SELECT * FROM u"),
    ("ansi", "CREATE TABLE t (a int, b int); INSERT INTO t SELECT a, b FROM s; INSERT INTO u SELECT a FROM t"),
    ("ansi", "INSERT INTO t1 SELECT sq.x FROM (SELECT x FROM a) sq; INSERT INTO t2 SELECT sq2.x FROM (SELECT x FROM b) sq2; INSERT INTO t3 SELECT t1.x, t2.x AS y FROM t1 JOIN t2 ON t1.x = t2.x"),
    ("ansi", "INSERT INTO t SELECT * FROM s; INSERT INTO t SELECT * FROM t; INSERT INTO u SELECT * FROM t"),
    ("ansi", "CREATE VIEW v AS SELECT a.x, b.y FROM a JOIN b ON a.k = b.k; SELECT x FROM v; INSERT INTO w SELECT y FROM v"),
    ("ansi", "MERGE INTO t USING s ON t.k = s.k WHEN MATCHED THEN UPDATE SET t.a = s.a WHEN NOT MATCHED THEN INSERT (k, a) VALUES (s.k, s.a); INSERT INTO u SELECT a FROM t"),
    ("ansi", "INSERT INTO t SELECT a FROM s1 UNION ALL SELECT a FROM s2; DROP TABLE s2; INSERT INTO u SELECT a FROM t"),
    ("sparksql", "INSERT OVERWRITE TABLE t SELECT a FROM s; INSERT INTO TABLE u SELECT a FROM t; INSERT OVERWRITE DIRECTORY 'hdfs://x/y' SELECT a FROM u"),
    ("postgres", "SELECT a, b INTO t FROM s; UPDATE t SET a = s2.a FROM s2 WHERE s2.k = t.b; INSERT INTO u SELECT a FROM t"),
    # multi-part column references with quoted parts
    ("ansi", 'INSERT INTO rpt.out SELECT "sales".orders.amount, sales."orders".id FROM sales.orders'),
    ("tsql", "INSERT INTO [rpt].[out] SELECT [dbo].[orders].[amount], o2.[id] FROM [dbo].[orders] JOIN [dbo].[o2] AS o2 ON [dbo].[orders].[id] = o2.[id]"),
    ("mysql", "INSERT INTO rpt.out SELECT `sales`.`orders`.`amount` FROM `sales`.`orders`"),
    ("ansi", 'CREATE TABLE stage AS SELECT "db"."sales"."orders"."amount" AS a FROM "db"."sales"."orders"; INSERT INTO rpt.out SELECT stage.a FROM stage'),
    # a three-part table name whose columns are referenced with a partial (two-part) qualifier
    ("ansi", "INSERT INTO rpt.out SELECT sales.orders.amount, sales.orders.id FROM prod.sales.orders"),
    ("ansi", "UPDATE rpt.out SET amount = sales.orders.amount FROM prod.sales.orders WHERE sales.orders.id = rpt.out.id"),
    ("ansi", "CREATE TABLE prod.stage.t AS SELECT sales.orders.amount AS a FROM prod.sales.orders; INSERT INTO rpt.out SELECT stage.t.a FROM prod.stage.t"),
    # a table that only has column lineage (written by a statement that reads no table) and is dropped later
    ("ansi", "UPDATE t SET a = b; DROP TABLE t"),
    ("ansi", "INSERT INTO t SELECT sq.x FROM (SELECT 1 AS x) sq; DROP TABLE t; INSERT INTO u SELECT k FROM v"),
    ("postgres", "CREATE TABLE days AS SELECT d FROM generate_series(1, 3) AS g(d); INSERT INTO u SELECT k FROM v; DROP TABLE days"),
    ("ansi", "CREATE TABLE t (a int, b int); INSERT INTO u SELECT k FROM v; DROP TABLE t"),
    ("ansi", "INSERT INTO t SELECT v.x FROM (VALUES (1), (2)) AS v (x); DROP TABLE IF EXISTS t"),
    ("ansi", "DROP TABLE t; UPDATE t SET a = b; INSERT INTO u SELECT a FROM t; DROP TABLE t"),
]


def chain_cases(ctx, n):
    """multi-statement chains from the C04 generator (real write-then-read scripts, with and without provider)"""
    from vlib import sqlir as ir
    from vlib.props import C04

    out = []

    def body(case, res):
        stmts, needs_provider = C04.build(case)
        md = {"s.__truthy__": ["x"]} if case[1] else None
        out.append({"sql": ";\n".join(ir.r_stmt(s) for s in stmts), "dialect": "ansi", "metadata": md, "origin": "gen:c04"})
        return None

    runner.hyp_run(C04.strategy(), body, runner.Res(), seed=runner.derive_seed(ctx.seed, "poolchain"), max_examples=n, ctx=ctx)
    return out


def identifier_cases(ctx):
    """the statements of C16's positions stream (every spelling: case x quoting, 1-2 name parts, every syntactic position incl. quoted
    aliases / CTE names / derived aliases used as qualifiers) under three dialects covering the quote styles; the cells of the listed
    finding K-quoted-case@C16 are left out (C16 owns them)"""
    from vlib import rewrite
    from vlib.props import C16

    out = []
    known = C16.known_cells()
    for dialect in ("ansi", "mysql", "tsql"):
        for sp in C16.spellings(dialect):
            for (pname, build, parts_matter) in C16.positions():
                for n in ((1, 2) if parts_matter else (1,)):
                    sql, _ = build(sp, n)
                    c = {"sql": sql, "dialect": dialect}
                    if C16.cell_key(c) in known or not rewrite.parses(sql, dialect):
                        continue
                    out.append({"sql": sql, "dialect": dialect, "metadata": None, "origin": "identifiers"})
    return out


def all_cases(ctx, n_generated):
    crafted = [{"sql": s, "dialect": d, "metadata": None, "origin": "crafted"} for d, s in CRAFTED]
    return corpus_cases(ctx) + crafted + identifier_cases(ctx) + generated_cases(ctx, n_generated) + chain_cases(ctx, max(20, n_generated // 4))
