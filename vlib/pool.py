"""Result pool shared by the invariant checks (C06, C18): every analysis result produced by the harvested corpus (test-suite
SQL in its dialect, also under ansi, with the metadata the tests used), the bundled TPC-DS scripts and the generators of
C01-C05 (IR statements, C03 SQL histories, C11 set-heavy templates, chained scripts)."""
from __future__ import annotations

import json

from vlib import corpus, runner


def corpus_cases(ctx):
    out = []
    for e in corpus.tests():
        if e.get("md_class") and e["md_class"] != "DummyMetaDataProvider":
            continue
        out.append({"sql": e["sql"], "dialect": e["dialect"], "metadata": e.get("metadata"), "origin": "corpus"})
        if e["dialect"] != "ansi" and e.get("sqlfluff", True):
            out.append({"sql": e["sql"], "dialect": "ansi", "metadata": e.get("metadata"), "origin": "corpus@ansi"})
    tp = corpus.tpcds()
    if ctx.quick:
        tp = tp[(ctx.seed % 6):: 6]
    out += [{"sql": e["sql"], "dialect": "ansi", "metadata": None, "origin": "tpcds"} for e in tp]
    return out


def generated_cases(ctx, n):
    """Hypothesis is the seeded generator; the invariants are checked afterwards on every result"""
    from hypothesis import strategies as st

    from vlib import sqlgen
    from vlib import sqlir as ir
    from vlib.props import C03, C11

    out = []

    def body(case, res):
        kind, payload = case
        if kind == "ir":
            out.append({"sql": ir.r_stmt(payload), "dialect": "ansi", "metadata": None, "origin": "gen:ir"})
        elif kind == "ir_tables":
            out.append({"sql": ir.r_stmt(payload[0]), "dialect": "ansi", "metadata": None, "origin": "gen:ir_tables"})
        elif kind == "c03":
            hist, dialect, sql = C03.build_sql_case(payload)
            out.append({"sql": sql, "dialect": dialect, "metadata": None, "origin": "gen:c03"})
        elif kind == "c11":
            c = C11.build_gen(payload)
            c["origin"] = "gen:c11"
            out.append(c)
        elif kind == "chain":
            stmts = [ir.r_stmt(s) for s in payload]
            out.append({"sql": ";\n".join(stmts), "dialect": "ansi", "metadata": None, "origin": "gen:chain"})
        return None

    strat = st.one_of(
        st.tuples(st.just("ir"), sqlgen.stmt(1)),
        st.tuples(st.just("ir"), sqlgen.stmt(2)),
        st.tuples(st.just("ir_tables"), sqlgen.stmt_tables(1)),
        st.tuples(st.just("c03"), C03.sql_strategy()),
        st.tuples(st.just("c11"), C11.gen_strategy()),
        st.tuples(st.just("chain"), st.lists(sqlgen.stmt(1), min_size=2, max_size=3)),
    )
    runner.hyp_run(strat, body, runner.Res(), seed=runner.derive_seed(ctx.seed, "pool"), max_examples=n, ctx=ctx)
    seen, uniq = set(), []
    for c in out:
        k = json.dumps(c, sort_keys=True)
        if k not in seen:
            seen.add(k)
            uniq.append(c)
    return uniq


def all_cases(ctx, n_generated):
    return corpus_cases(ctx) + generated_cases(ctx, n_generated)
