"""Token-level, meaning-preserving rewrites of SQL text computed with sqlfluff's *lexer* for the case's dialect, so that
string literals, quoted identifiers and existing comments are never touched.  Identifier positions for the quoting
rewrite come from sqlfluff's parse tree (never function names or keywords)."""
from __future__ import annotations

import re

_lexers = {}
_linters = {}

WS_CHOICES = [" ", "\n", "\t", "  \n  ", "\n\n", " \t "]
COMMENTS = [" /* c; x */ ", " -- c ; select\n", "/**/", " /* from zz join yy */ ", "\n-- insert into qq\n", " /* ' \" ` */ "]
GLUE = ["/**/", "/*;*/", "/* c */"]  # a block comment as the only separator between two words
TRAILERS = [";", ";;", ";\n;", " ;\n", "\n;\n-- tail\n", ""]
BACKTICK = {"mysql", "mariadb", "hive", "sparksql", "databricks", "bigquery", "clickhouse", "starrocks", "doris", "impala", "athena"}
PLAIN_LOWER = re.compile(r"^[a-z_][a-z0-9_]*$")


def _cfg(dialect):
    from sqlfluff.core import FluffConfig

    return FluffConfig(overrides={"dialect": dialect})


def lexer(dialect):
    from sqlfluff.core import Lexer

    if dialect not in _lexers:
        _lexers[dialect] = Lexer(config=_cfg(dialect))
    return _lexers[dialect]


def linter(dialect):
    from sqlfluff.core import Linter

    if dialect not in _linters:
        _linters[dialect] = Linter(config=_cfg(dialect))
    return _linters[dialect]


def lex(sql, dialect):
    """[(type, raw)] with raw != '' ; None when the lexer reports errors or does not round-trip"""
    toks, errs = lexer(dialect).lex(sql)
    if errs:
        return None
    out = [(t.type, t.raw) for t in toks if t.raw != ""]
    if "".join(r for _, r in out) != sql:
        return None
    return out


def parses(sql, dialect):
    from sqlfluff.core import SQLLexError, SQLParseError

    try:
        p = linter(dialect).parse_string(sql)
    except Exception:  # noqa
        return False
    return bool(p.parsed_variants) and not any(isinstance(e, (SQLLexError, SQLParseError)) for e in p.violations)


def identifier_spans(sql, dialect):
    """character spans (start, stop) of naked identifiers that are plain lower-case names in reference positions"""
    from sqlfluff.core import SQLLexError, SQLParseError

    p = linter(dialect).parse_string(sql)
    if not p.parsed_variants or any(isinstance(e, (SQLLexError, SQLParseError)) for e in p.violations):
        return []
    tree = p.tree
    if tree is None:
        return []
    spans = []
    ok_parents = {"column_reference", "table_reference", "object_reference", "alias_expression", "common_table_expression",
                  "wildcard_identifier"}
    for parent in tree.recursive_crawl(*ok_parents):
        for seg in parent.segments:
            if seg.is_type("naked_identifier") and PLAIN_LOWER.match(seg.raw) and seg.pos_marker is not None:
                sl = seg.pos_marker.source_slice
                if sql[sl.start:sl.stop] == seg.raw:
                    spans.append((sl.start, sl.stop))
    return sorted(set(spans))


def count_quoted_identifiers(sql, dialect):
    """number of quoted_identifier segments in sqlfluff's parse of the text; None when it does not parse"""
    from sqlfluff.core import SQLLexError, SQLParseError

    try:
        p = linter(dialect).parse_string(sql)
    except Exception:  # noqa
        return None
    if not p.parsed_variants or any(isinstance(e, (SQLLexError, SQLParseError)) for e in p.violations) or p.tree is None:
        return None
    return sum(1 for _ in p.tree.recursive_crawl("quoted_identifier"))


def quote_for(dialect):
    if dialect == "tsql":
        return "[", "]"
    if dialect in BACKTICK:
        return "`", "`"
    return '"', '"'


class Sites:
    """all eligible rewrite sites of one text"""

    def __init__(self, sql, dialect, with_identifiers=True):
        self.sql = sql
        self.dialect = dialect
        self.toks = lex(sql, dialect)
        self.ok = self.toks is not None
        self.ws = []
        self.words = []
        self.idents = []
        self.glue = []
        self.nquoted = None
        if not self.ok:
            return
        pos = 0
        starts = []
        for i, (t, r) in enumerate(self.toks):
            starts.append(pos)
            pos += len(r)
            if t in ("whitespace", "newline"):
                self.ws.append(i)
            elif t == "word":
                self.words.append(i)
        self.starts = starts
        if with_identifiers:
            try:
                spans = set(identifier_spans(sql, dialect))
            except Exception:  # noqa
                spans = set()
            for i in self.words:
                if (starts[i], starts[i] + len(self.toks[i][1])) in spans:
                    self.idents.append(i)
            if self.idents:
                self.nquoted = count_quoted_identifiers(sql, dialect)
        # whitespace directly in front of an identifier and behind a word: a bare comment can stand there as the ONLY separator ("from/**/t2")
        ids = set(self.idents)
        self.glue = [i for i in self.ws if i + 1 in ids and i > 0 and self.toks[i - 1][0] == "word" and i - 1 not in ids
                     and not (self.toks[i - 1][0] == "comment")]

    def quote_sites_applied(self, edits):
        return len({site % len(self.idents) for kind, site, _ in edits if kind == "quote"}) if self.idents else 0

    def quoting_preserved(self, new_sql, edits):
        """parse-shape guard: every quoted token must be read by sqlfluff as a quoted *identifier* (hive, for one, reads a
        back-quoted select item as a literal); otherwise the parser - not sqllineage - changed the statement's meaning"""
        k = self.quote_sites_applied(edits)
        if not k:
            return True
        if self.nquoted is None:
            return False
        n = count_quoted_identifiers(new_sql, self.dialect)
        return n is not None and n == self.nquoted + k

    def apply(self, edits, trailer=None):
        """edits: list of (kind, site_index, choice); kinds: 'ws','comment','case','quote'. returns new text"""
        toks = [r for _, r in self.toks]
        types = [t for t, _ in self.toks]
        for kind, site, choice in edits:
            if kind == "ws" and self.ws:
                i = self.ws[site % len(self.ws)]
                new = WS_CHOICES[choice % len(WS_CHOICES)]
                # the newline that ends a line comment must survive
                if i > 0 and types[i - 1] == "comment" and not self.toks[i - 1][1].startswith("/*") and "\n" not in new:
                    new = "\n" + new
                toks[i] = new
            elif kind == "comment" and self.ws:
                i = self.ws[site % len(self.ws)]
                c = COMMENTS[choice % len(COMMENTS)]
                # sqlfluff's parser needs whitespace between a comment and a following keyword
                toks[i] = toks[i] + c + ("" if c[-1:].isspace() else " ")
            elif kind == "glue" and self.glue:
                i = self.glue[site % len(self.glue)]
                toks[i] = GLUE[choice % len(GLUE)]
            elif kind == "case" and self.words:
                i = self.words[site % len(self.words)]
                w = self.toks[i][1]
                toks[i] = [w.upper(), w.lower(), w.swapcase(), w.capitalize()][choice % 4]
            elif kind == "quote" and self.idents:
                i = self.idents[site % len(self.idents)]
                a, b = quote_for(self.dialect)
                toks[i] = a + self.toks[i][1] + b
        out = "".join(toks)
        if trailer is not None:
            out = out.rstrip().rstrip(";").rstrip() + TRAILERS[trailer % len(TRAILERS)]
        return out

    def all_single_edits(self):
        """every rewrite at every eligible site individually (thorough tier)"""
        for s in range(len(self.ws)):
            yield ("ws", s, s % len(WS_CHOICES))
            yield ("comment", s, s % len(COMMENTS))
        for s in range(len(self.words)):
            w = self.toks[self.words[s]][1]
            yield ("case", s, 2 if w.swapcase() != w else 0)
        for s in range(len(self.idents)):
            yield ("quote", s, 0)
        for s in range(len(self.glue)):
            yield ("glue", s, s % len(GLUE))
