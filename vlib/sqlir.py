"""SQL intermediate representation, renderer and reference lineage semantics.

A generated case is an IR value, so the harness KNOWS what the statement reads, writes and how columns flow without
asking sqllineage.  `expected(stmt)` returns (sources, targets, column pairs) in sqllineage's printed naming
(`<default>.t.c`, unresolved columns as `c?cand1|cand2`).  Shares no code with sqllineage."""
from __future__ import annotations
from dataclasses import dataclass, field
from typing import Optional, Union, Tuple

# ---------------- expressions
@dataclass(frozen=True)
class Col:
    qual: Optional[str]
    name: str
@dataclass(frozen=True)
class Lit:
    text: str
@dataclass(frozen=True)
class Func:
    name: str
    args: tuple
@dataclass(frozen=True)
class Bin:
    op: str
    l: object
    r: object
@dataclass(frozen=True)
class Case:
    whens: tuple  # ((cond_pred, val_expr),...)
    els: Optional[object]
@dataclass(frozen=True)
class Cast:
    e: object
    typ: str
    style: str  # 'cast' | '::'
@dataclass(frozen=True)
class Win:
    fn: str
    args: tuple
    part: tuple
    order: tuple
@dataclass(frozen=True)
class Paren:
    e: object
@dataclass(frozen=True)
class Star:
    qual: Optional[str]
@dataclass(frozen=True)
class ScalarSub:  # (SELECT ...) used as an expression - table-level checks only
    q: object
# predicates
@dataclass(frozen=True)
class Not:
    p: object
@dataclass(frozen=True)
class Cmp:
    l: object
    op: str
    r: object
@dataclass(frozen=True)
class InSub:
    e: object
    q: object
    neg: bool = False
@dataclass(frozen=True)
class Exists:
    q: object
    neg: bool = False
@dataclass(frozen=True)
class CmpSub:
    e: object
    op: str
    q: object
@dataclass(frozen=True)
class BoolOp:
    op: str  # AND/OR
    l: object
    r: object
@dataclass(frozen=True)
class PParen:
    p: object
# from items
@dataclass(frozen=True)
class T:
    schema: Optional[str]
    name: str
    alias: Optional[str] = None
    as_kw: bool = True
@dataclass(frozen=True)
class CteRef:
    name: str
    alias: Optional[str] = None
    as_kw: bool = True
@dataclass(frozen=True)
class Derived:
    q: object
    alias: str
    as_kw: bool = True
@dataclass(frozen=True)
class Nested:  # a parenthesised join used as a FROM / JOIN item:  a JOIN (b JOIN c ON ..) ON ..
    group: object  # FromGroup
@dataclass(frozen=True)
class Join:
    kind: str  # 'JOIN','INNER JOIN','LEFT JOIN','LEFT OUTER JOIN','RIGHT JOIN','FULL OUTER JOIN','CROSS JOIN'
    item: object
    cond: Optional[tuple]  # ('on', Pred) | ('using', (col,...)) | None
@dataclass(frozen=True)
class FromGroup:
    first: object
    joins: tuple = ()
@dataclass(frozen=True)
class Item:
    e: object
    alias: Optional[str] = None
    as_kw: bool = True
@dataclass(frozen=True)
class Select:
    items: tuple
    frm: tuple  # of FromGroup
    where: Optional[object] = None
    distinct: bool = False
    group_by: tuple = ()
    having: Optional[object] = None
@dataclass(frozen=True)
class SetOp:
    ops: tuple  # len = len(branches)-1
    branches: tuple
@dataclass(frozen=True)
class With:
    ctes: tuple  # ((name, query),...)
    body: object
    recursive: bool = False  # WITH RECURSIVE: a CTE body may reference its own name (tables-only checks)
# statements
@dataclass(frozen=True)
class Insert:
    tgt: T
    cols: Optional[tuple]
    q: object
    style: str = "INSERT INTO"  # 'INSERT INTO' | 'INSERT OVERWRITE TABLE' | 'INSERT INTO TABLE' | 'INSERT OVERWRITE'
    paren: bool = False
@dataclass(frozen=True)
class Ctas:
    tgt: T
    q: object
    style: str = "CREATE TABLE"  # 'CREATE TABLE IF NOT EXISTS', 'CREATE OR REPLACE TABLE'
    paren: bool = False
@dataclass(frozen=True)
class CreateView:
    tgt: T
    cols: Optional[tuple]
    q: object
    style: str = "CREATE VIEW"
    paren: bool = False
@dataclass(frozen=True)
class Bare:
    q: object
@dataclass(frozen=True)
class CteInsert:  # WITH ... INSERT INTO t SELECT ...
    ctes: tuple
    ins: Insert
@dataclass(frozen=True)
class Update:  # UPDATE tgt SET c = src.c, ... FROM items WHERE pred
    tgt: T
    sets: tuple  # ((colname, Col),...)
    frm: tuple   # of FromGroup
    where: Optional[object] = None
@dataclass(frozen=True)
class Merge:  # MERGE INTO tgt USING src ON pred WHEN MATCHED THEN UPDATE SET ... WHEN NOT MATCHED THEN INSERT (...) VALUES (...)
    tgt: T
    src: object  # T | Derived
    on: object
    upd: tuple   # ((tgt col, Col),...)
    ins: tuple   # ((tgt col, Col),...)
    more: tuple = ()  # further WHEN clauses after the two above: (("upd" | "ins" | "del", condition | None, ((tgt col, expr),...)),...)
@dataclass(frozen=True)
class Noop:  # statement that moves no data
    text: str
@dataclass(frozen=True)
class CreateLike:
    tgt: T
    src: T
    kw: str = "LIKE"
@dataclass(frozen=True)
class SelectInto:  # SELECT ... INTO tgt FROM ...
    tgt: T
    q: Select
@dataclass(frozen=True)
class InsertValues:  # INSERT INTO tgt VALUES (...)
    tgt: T
    ncols: int = 2


# ---------------- rendering
def r_expr(e) -> str:
    if isinstance(e, Col): return f"{e.qual}.{e.name}" if e.qual else e.name
    if isinstance(e, Lit): return e.text
    if isinstance(e, Func): return f"{e.name}({', '.join(r_expr(a) for a in e.args)})"
    if isinstance(e, Bin): return f"{r_expr(e.l)} {e.op} {r_expr(e.r)}"
    if isinstance(e, Paren): return f"({r_expr(e.e)})"
    if isinstance(e, Case):
        s = "CASE " + " ".join(f"WHEN {r_pred(c)} THEN {r_expr(v)}" for c, v in e.whens)
        if e.els is not None: s += f" ELSE {r_expr(e.els)}"
        return s + " END"
    if isinstance(e, Cast):
        return f"CAST({r_expr(e.e)} AS {e.typ})" if e.style == "cast" else f"{r_expr(e.e)}::{e.typ}"
    if isinstance(e, Win):
        o = []
        if e.part: o.append("PARTITION BY " + ", ".join(r_expr(x) for x in e.part))
        if e.order: o.append("ORDER BY " + ", ".join(r_expr(x) for x in e.order))
        return f"{e.fn}({', '.join(r_expr(a) for a in e.args)}) OVER ({' '.join(o)})"
    if isinstance(e, Star): return f"{e.qual}.*" if e.qual else "*"
    if isinstance(e, ScalarSub): return f"({r_query(e.q)})"
    raise TypeError(e)

def r_pred(p) -> str:
    if isinstance(p, Not): return f"NOT {r_pred(p.p)}"
    if isinstance(p, Cmp): return f"{r_expr(p.l)} {p.op} {r_expr(p.r)}"
    if isinstance(p, InSub): return f"{r_expr(p.e)} {'NOT ' if p.neg else ''}IN ({r_query(p.q)})"
    if isinstance(p, Exists): return f"{'NOT ' if p.neg else ''}EXISTS ({r_query(p.q)})"
    if isinstance(p, CmpSub): return f"{r_expr(p.e)} {p.op} ({r_query(p.q)})"
    if isinstance(p, BoolOp): return f"{r_pred(p.l)} {p.op} {r_pred(p.r)}"
    if isinstance(p, PParen): return f"({r_pred(p.p)})"
    raise TypeError(p)

def r_tname(t: T) -> str:
    return f"{t.schema}.{t.name}" if t.schema else t.name

def r_alias(alias, as_kw): return "" if alias is None else (f" AS {alias}" if as_kw else f" {alias}")

def r_from_item(f) -> str:
    if isinstance(f, T): return r_tname(f) + r_alias(f.alias, f.as_kw)
    if isinstance(f, CteRef): return f.name + r_alias(f.alias, f.as_kw)
    if isinstance(f, Derived): return f"({r_query(f.q)})" + r_alias(f.alias, f.as_kw)
    if isinstance(f, Nested): return f"({r_group(f.group)})"
    raise TypeError(f)

def r_group(g: FromGroup) -> str:
    s = r_from_item(g.first)
    for j in g.joins:
        s += f" {j.kind} {r_from_item(j.item)}"
        if j.cond:
            if j.cond[0] == "on": s += f" ON {r_pred(j.cond[1])}"
            else: s += f" USING ({', '.join(j.cond[1])})"
    return s

def r_item(i: Item) -> str:
    return r_expr(i.e) + r_alias(i.alias, i.as_kw)

def r_query(q) -> str:
    if isinstance(q, Select):
        s = "SELECT " + ("DISTINCT " if q.distinct else "") + ", ".join(r_item(i) for i in q.items)
        if q.frm: s += " FROM " + ", ".join(r_group(g) for g in q.frm)
        if q.where is not None: s += " WHERE " + r_pred(q.where)
        if q.group_by: s += " GROUP BY " + ", ".join(r_expr(e) for e in q.group_by)
        if q.having is not None: s += " HAVING " + r_pred(q.having)
        return s
    if isinstance(q, SetOp):
        s = r_query(q.branches[0])
        for op, b in zip(q.ops, q.branches[1:]): s += f" {op} {r_query(b)}"
        return s
    if isinstance(q, With):
        return ("WITH RECURSIVE " if q.recursive else "WITH ") + ", ".join(f"{n} AS ({r_query(cq)})" for n, cq in q.ctes) + " " + r_query(q.body)
    raise TypeError(q)

def r_stmt(s) -> str:
    body = lambda q, paren: f"({r_query(q)})" if paren else r_query(q)
    if isinstance(s, Insert):
        cols = f" ({', '.join(s.cols)})" if s.cols else ""
        return f"{s.style} {r_tname(s.tgt)}{cols} {body(s.q, s.paren)}"
    if isinstance(s, Ctas): return f"{s.style} {r_tname(s.tgt)} AS {body(s.q, s.paren)}"
    if isinstance(s, CreateView):
        cols = f" ({', '.join(s.cols)})" if s.cols else ""
        return f"{s.style} {r_tname(s.tgt)}{cols} AS {body(s.q, s.paren)}"
    if isinstance(s, Bare): return r_query(s.q)
    if isinstance(s, CteInsert):
        return "WITH " + ", ".join(f"{n} AS ({r_query(cq)})" for n, cq in s.ctes) + " " + r_stmt(s.ins)
    if isinstance(s, Update):
        out = f"UPDATE {r_tname(s.tgt)}{r_alias(s.tgt.alias, s.tgt.as_kw)} SET " + ", ".join(f"{c} = {r_expr(e)}" for c, e in s.sets)
        if s.frm: out += " FROM " + ", ".join(r_group(g) for g in s.frm)
        if s.where is not None: out += " WHERE " + r_pred(s.where)
        return out
    if isinstance(s, Merge):
        out = f"MERGE INTO {r_tname(s.tgt)}{r_alias(s.tgt.alias, s.tgt.as_kw)} USING {r_from_item(s.src)} ON {r_pred(s.on)}"
        if s.upd: out += " WHEN MATCHED THEN UPDATE SET " + ", ".join(f"{c} = {r_expr(e)}" for c, e in s.upd)
        if s.ins: out += (" WHEN NOT MATCHED THEN INSERT (" + ", ".join(c for c, _ in s.ins) + ") VALUES (" +
                          ", ".join(r_expr(e) for _, e in s.ins) + ")")
        for kind, cond, prs in s.more:
            out += (" WHEN NOT MATCHED" if kind == "ins" else " WHEN MATCHED") + (f" AND {r_pred(cond)}" if cond is not None else "") + " THEN "
            if kind == "ins": out += "INSERT (" + ", ".join(c for c, _ in prs) + ") VALUES (" + ", ".join(r_expr(e) for _, e in prs) + ")"
            elif kind == "upd": out += "UPDATE SET " + ", ".join(f"{c} = {r_expr(e)}" for c, e in prs)
            else: out += "DELETE"
        return out
    if isinstance(s, Noop): return s.text
    if isinstance(s, CreateLike): return f"CREATE TABLE {r_tname(s.tgt)} {s.kw} {r_tname(s.src)}"
    if isinstance(s, SelectInto):
        q = s.q
        out = "SELECT " + ", ".join(r_item(i) for i in q.items) + f" INTO {r_tname(s.tgt)}"
        if q.frm: out += " FROM " + ", ".join(r_group(g) for g in q.frm)
        if q.where is not None: out += " WHERE " + r_pred(q.where)
        return out
    if isinstance(s, InsertValues):
        return f"INSERT INTO {r_tname(s.tgt)} VALUES (" + ", ".join(str(i + 1) for i in range(s.ncols)) + ")"
    raise TypeError(s)


# ---------------- reference semantics
DEFAULT = "<default>"
def tkey(t: T) -> str: return f"{t.schema or DEFAULT}.{t.name}".lower()

class Rel:
    """a relation in scope: base table or subquery (derived/cte)"""
    def __init__(self, kind, name, cols=None, body=None):
        self.kind = kind      # 'table' | 'sq'
        self.name = name      # printed name: 'schema.table' or alias
        self.cols = cols      # for sq: ordered dict colname -> set of root descriptors ; has '*' key -> star roots
        self.body = body
    def __repr__(self): return f"Rel({self.kind},{self.name})"

def expr_cols(e, out):
    if isinstance(e, Col): out.append(e)
    elif isinstance(e, Lit): pass
    elif isinstance(e, Func):
        for a in e.args: expr_cols(a, out)
    elif isinstance(e, Bin): expr_cols(e.l, out); expr_cols(e.r, out)
    elif isinstance(e, Paren): expr_cols(e.e, out)
    elif isinstance(e, Case):
        for c, v in e.whens: pred_cols(c, out); expr_cols(v, out)
        if e.els is not None: expr_cols(e.els, out)
    elif isinstance(e, Cast): expr_cols(e.e, out)
    elif isinstance(e, Win):
        for a in e.args: expr_cols(a, out)
        for a in e.part: expr_cols(a, out)
        for a in e.order: expr_cols(a, out)
    elif isinstance(e, Star): out.append(e)
    else: raise TypeError(e)

def pred_cols(p, out):
    if isinstance(p, Cmp): expr_cols(p.l, out); expr_cols(p.r, out)
    elif isinstance(p, BoolOp): pred_cols(p.l, out); pred_cols(p.r, out)
    elif isinstance(p, PParen): pred_cols(p.p, out)
    else: raise TypeError(p)  # subquery preds are not allowed inside CASE in this prototype

class Oracle:
    def __init__(self, md=None):
        self.tables = set()   # base tables read
        self.md = {k.lower(): [c.lower() for c in v] for k, v in (md or {}).items()}  # known table -> columns (metadata provider)

    # returns Rel for the query evaluated as a subquery named `name`
    def query(self, q, env, name, explicit_cols=None) -> Rel:
        if isinstance(q, With):
            env = dict(env)
            for n, cq in q.ctes:
                env[n.lower()] = self.query(cq, env, n.lower())
            return self.query(q.body, env, name, explicit_cols)
        if isinstance(q, SetOp):
            rels = [self.query(b, env, name) for b in q.branches]
            first = rels[0]
            names = explicit_cols or list(first.cols.keys())
            cols = {}
            for r in rels:
                if len(r.cols) == len(names):
                    for n, (k, v) in zip(names, r.cols.items()):
                        cols.setdefault(n, set()).update(v)
                else:
                    for k, v in r.cols.items(): cols.setdefault(k, set()).update(v)
            return Rel("sq", name, cols, q)
        assert isinstance(q, Select)
        scope = []  # list of (refnames set, Rel)
        def add_item(f):
            if isinstance(f, T):
                self.tables.add(tkey(f))
                rel = Rel("table", tkey(f), self.md.get(tkey(f)))
                names = {f.alias.lower()} if f.alias else set()
                names |= {f.name.lower(), tkey(f)} if True else set()
                scope.append((f, names, rel))
            elif isinstance(f, CteRef):
                base = env[f.name.lower()]
                nm = (f.alias or f.name).lower()
                rel = Rel("sq", nm, base.cols, base.body)
                scope.append((f, {nm}, rel))
            elif isinstance(f, Derived):
                rel = self.query(f.q, env, f.alias.lower())
                scope.append((f, {f.alias.lower()}, rel))
            elif isinstance(f, Nested):
                add_item(f.group.first)
                for j in f.group.joins: add_item(j.item)
        for g in q.frm:
            add_item(g.first)
            for j in g.joins: add_item(j.item)
        for p in (q.where, q.having):
            if p is not None: self.pred_subqueries(p, env)
        def lookup(qual):
            qual = qual.lower()
            # alias first, then raw table name, then qualified name  (alias shadows a bare table name)
            for f, names, rel in scope:
                al = getattr(f, "alias", None)
                if al and al.lower() == qual: return rel
            for f, names, rel in scope:
                if qual in names: return rel
            return Rel("table", f"{DEFAULT}.{qual}" if "." not in qual else qual)
        def roots_of(rel, col):
            if rel.kind == "table": return {("col", rel.name, col)}
            if col in rel.cols:
                return rel.cols[col]  # possibly empty: a constant defined in the subquery depends on no base-table column
            return {("col", rel.name, col)}
        def resolve(c):
            if isinstance(c, Star):
                rels = [lookup(c.qual)] if c.qual else [rel for _, _, rel in scope]
                return ("star", rels)
            if c.qual: return ("cols", roots_of(lookup(c.qual), c.name.lower()))
            rels = [rel for _, _, rel in scope]
            uniq = {r.name: r for r in rels}
            if len(uniq) == 1: return ("cols", roots_of(rels[0], c.name.lower()))
            # metadata refines: exactly the in-scope known tables that list the column; otherwise it stays unresolved
            listing = [r for r in uniq.values() if r.kind == "table" and r.cols is not None and c.name.lower() in r.cols]
            if listing: return ("cols", {("col", r.name, c.name.lower()) for r in listing})
            return ("cols", {("unres", c.name.lower(), tuple(sorted(uniq)))})
        cols = {}
        for idx, it in enumerate(q.items):
            refs = []; expr_cols(it.e, refs)
            if isinstance(it.e, Star):
                kind, rels = resolve(it.e)
                for rel in rels:
                    if rel.kind == "table" and rel.cols is not None:  # known table: the star expands to exactly its columns
                        for k in rel.cols: cols.setdefault(k, set()).add(("col", rel.name, k))
                    elif rel.kind == "table": cols.setdefault("*", set()).add(("col", rel.name, "*"))
                    else:
                        known = [k for k in rel.cols if k != "*"]
                        if known:
                            for k in known: cols.setdefault(k, set()).update(roots_of(rel, k))
                        elif "*" in rel.cols: cols.setdefault("*", set()).update(rel.cols["*"])
                continue
            if it.alias: tname = it.alias.lower()
            elif isinstance(it.e, Col): tname = it.e.name.lower()
            elif isinstance(it.e, Cast) and it.e.style == "::" and isinstance(it.e.e, Col): tname = it.e.e.name.lower()
            else: tname = r_item(it).lower() if False else r_item(it)
            srcs = set()
            for c in refs:
                kind, v = resolve(c)
                if kind == "cols": srcs |= v
                else:
                    for rel in v: srcs.add(("col", rel.name, "*")) if rel.kind == "table" else srcs.update(rel.cols.get("*", {("col", rel.name, "*")}))
            if explicit_cols and len(explicit_cols) == len(q.items): tname = explicit_cols[idx].lower()
            cols.setdefault(tname, set()).update(srcs)
            if not srcs: cols[tname] = cols.get(tname, set())
        return Rel("sq", name, cols, q)

    def pred_subqueries(self, p, env):
        if isinstance(p, (InSub, Exists, CmpSub)): self.query(p.q, env, "_")
        elif isinstance(p, BoolOp): self.pred_subqueries(p.l, env); self.pred_subqueries(p.r, env)
        elif isinstance(p, PParen): self.pred_subqueries(p.p, env)

def fmt_root(r):
    if r[0] == "col": return f"{r[1]}.{r[2]}"
    return f"{r[1]}?{'|'.join(r[2])}"

def expected(stmt, md=None):
    if isinstance(stmt, Merge) and stmt.more:
        # every WHEN clause contributes its own assignments, evaluated in the scope of the USING source; the union is the statement's dataflow
        import dataclasses
        S, Tt, pairs = expected(dataclasses.replace(stmt, more=()), md)
        for kind, cond, prs in stmt.more:
            if kind != "del":
                pairs = sorted(set(pairs) | set(expected(Merge(stmt.tgt, stmt.src, stmt.on, prs if kind == "upd" else (), prs if kind == "ins" else ()), md)[2]))
        return S, Tt, pairs
    o = Oracle(md)
    env = {}
    tgt = None; cols = None; q = None
    if isinstance(stmt, CteInsert):
        for n, cq in stmt.ctes: env[n.lower()] = o.query(cq, env, n.lower())
        stmt = stmt.ins
    if isinstance(stmt, (Insert, CreateView)): tgt, cols, q = stmt.tgt, stmt.cols, stmt.q
    elif isinstance(stmt, Ctas): tgt, q = stmt.tgt, stmt.q
    elif isinstance(stmt, Bare): q = stmt.q
    elif isinstance(stmt, Update):
        # UPDATE tgt SET c = src.col, .. FROM items: each assignment is a select item named by the assigned column, evaluated in the FROM scope
        tgt = stmt.tgt
        q = Select(tuple(Item(e, c, True) for c, e in stmt.sets), stmt.frm)
    elif isinstance(stmt, Merge):
        # MERGE: the UPDATE SET assignments and the INSERT (cols) VALUES (exprs) pairs, evaluated in the scope of the USING source
        tgt = stmt.tgt
        q = Select(tuple(Item(e, c, True) for c, e in tuple(stmt.upd) + tuple(stmt.ins)), (FromGroup(stmt.src),))
    if md and isinstance(stmt, Insert) and not cols and tgt is not None and tkey(tgt) in o.md:
        # INSERT without column list into a known target: its known columns name the positions (when the arity matches)
        first = q
        while not isinstance(first, Select): first = first.body if isinstance(first, With) else first.branches[0]
        if len(first.items) == len(o.md[tkey(tgt)]) and not any(isinstance(i.e, Star) for i in first.items):
            cols = tuple(o.md[tkey(tgt)])
    rel = o.query(q, env, "_top", list(cols) if cols else None)
    S = sorted(o.tables)
    Tt = [tkey(tgt)] if tgt else []
    pairs = set()
    if tgt:
        for c, roots in rel.cols.items():
            for r in roots: pairs.add((fmt_root(r), f"{tkey(tgt)}.{c}"))
    return S, Tt, sorted(pairs)


# ---------------- table-level reference (C01): every base table reachable anywhere in the statement
_SKIP = set()  # positions not descended into: subset of {"scalar_item", "having", "where_sub"} (known-finding symptoms)

def _walk_expr_tables(e, acc):
    if isinstance(e, ScalarSub): _walk_query_tables(e.q, acc)
    elif isinstance(e, Func):
        for a in e.args: _walk_expr_tables(a, acc)
    elif isinstance(e, Bin): _walk_expr_tables(e.l, acc); _walk_expr_tables(e.r, acc)
    elif isinstance(e, Paren): _walk_expr_tables(e.e, acc)
    elif isinstance(e, Cast): _walk_expr_tables(e.e, acc)
    elif isinstance(e, Case):
        for c, v in e.whens: _walk_pred_tables(c, acc); _walk_expr_tables(v, acc)
        if e.els is not None: _walk_expr_tables(e.els, acc)
    elif isinstance(e, Win):
        for a in e.args + e.part + e.order: _walk_expr_tables(a, acc)

def _walk_pred_tables(p, acc):
    if p is None: return
    if isinstance(p, (InSub, CmpSub)): _walk_expr_tables(p.e, acc); _walk_query_tables(p.q, acc)
    elif isinstance(p, Exists): _walk_query_tables(p.q, acc)
    elif isinstance(p, BoolOp): _walk_pred_tables(p.l, acc); _walk_pred_tables(p.r, acc)
    elif isinstance(p, (PParen, Not)): _walk_pred_tables(p.p, acc)
    elif isinstance(p, Cmp): _walk_expr_tables(p.l, acc); _walk_expr_tables(p.r, acc)

def _walk_item_tables(f, acc):
    if isinstance(f, T): acc.add(tkey(f))
    elif isinstance(f, Derived): _walk_query_tables(f.q, acc)
    elif isinstance(f, Nested):
        _walk_item_tables(f.group.first, acc)
        for j in f.group.joins:
            _walk_item_tables(j.item, acc)
            if j.cond and j.cond[0] == "on": _walk_pred_tables(j.cond[1], acc)

def _walk_query_tables(q, acc):
    if isinstance(q, With):
        for _, cq in q.ctes: _walk_query_tables(cq, acc)
        _walk_query_tables(q.body, acc)
    elif isinstance(q, SetOp):
        for b in q.branches: _walk_query_tables(b, acc)
    else:
        for g in q.frm:
            _walk_item_tables(g.first, acc)
            for j in g.joins:
                _walk_item_tables(j.item, acc)
                if j.cond and j.cond[0] == "on": _walk_pred_tables(j.cond[1], acc)
        for it in q.items:
            if "scalar_item" in _SKIP and isinstance(it.e, ScalarSub): continue
            _walk_expr_tables(it.e, acc)
        if "where_sub" not in _SKIP: _walk_pred_tables(q.where, acc)
        if "having" not in _SKIP: _walk_pred_tables(q.having, acc)

def expected_tables(stmt, skip=()):
    """(sorted source table names, sorted target table names) in sqllineage's printed form"""
    global _SKIP
    _SKIP = set(skip)
    try:
        return _expected_tables(stmt)
    finally:
        _SKIP = set()

def _expected_tables(stmt):
    acc = set(); tgt = None
    if isinstance(stmt, CteInsert):
        for _, cq in stmt.ctes: _walk_query_tables(cq, acc)
        stmt = stmt.ins
    if isinstance(stmt, (Insert, Ctas, CreateView)): tgt = stmt.tgt; _walk_query_tables(stmt.q, acc)
    elif isinstance(stmt, Bare): _walk_query_tables(stmt.q, acc)
    elif isinstance(stmt, SelectInto): tgt = stmt.tgt; _walk_query_tables(stmt.q, acc)
    elif isinstance(stmt, Update):
        tgt = stmt.tgt
        for g in stmt.frm:
            _walk_item_tables(g.first, acc)
            for j in g.joins: _walk_item_tables(j.item, acc)
    elif isinstance(stmt, Merge): tgt = stmt.tgt; _walk_item_tables(stmt.src, acc)
    elif isinstance(stmt, CreateLike): tgt = stmt.tgt; acc.add(tkey(stmt.src))
    elif isinstance(stmt, InsertValues): tgt = stmt.tgt
    elif isinstance(stmt, Noop): pass
    else: raise TypeError(stmt)
    return sorted(acc), ([tkey(tgt)] if tgt is not None else [])


# ---------------- parse-shape guard: the trusted-base boundary (DESIGN 3.1)
def ir_signature(stmt):
    """coarse signature of the IR: multiset of base table names, number of SELECTs, number of CTEs"""
    names = []; counts = {"select": 0, "cte": 0}; aliases = []
    def item(f):
        if getattr(f, "alias", None): aliases.append(f.alias.lower())
        if isinstance(f, T): names.append((f"{f.schema}.{f.name}" if f.schema else f.name).lower())
        elif isinstance(f, CteRef): names.append(f.name.lower())
        elif isinstance(f, Derived): query(f.q)
        elif isinstance(f, Nested):
            item(f.group.first)
            for j in f.group.joins:
                item(j.item)
                if j.cond and j.cond[0] == "on": pred(j.cond[1])
    def expr(e):
        if isinstance(e, ScalarSub): query(e.q)
        elif isinstance(e, Func):
            for a in e.args: expr(a)
        elif isinstance(e, Bin): expr(e.l); expr(e.r)
        elif isinstance(e, (Paren, Cast)): expr(e.e)
        elif isinstance(e, Case):
            for c, v in e.whens: pred(c); expr(v)
            if e.els is not None: expr(e.els)
        elif isinstance(e, Win):
            for a in e.args + e.part + e.order: expr(a)
    def pred(p):
        if p is None: return
        if isinstance(p, (InSub, CmpSub)): expr(p.e); query(p.q)
        elif isinstance(p, Exists): query(p.q)
        elif isinstance(p, BoolOp): pred(p.l); pred(p.r)
        elif isinstance(p, (PParen, Not)): pred(p.p)
        elif isinstance(p, Cmp): expr(p.l); expr(p.r)
    def query(q):
        if isinstance(q, With):
            for _, cq in q.ctes: counts["cte"] += 1; query(cq)
            query(q.body)
        elif isinstance(q, SetOp):
            for b in q.branches: query(b)
        else:
            counts["select"] += 1
            for g in q.frm:
                item(g.first)
                for j in g.joins:
                    item(j.item)
                    if j.cond and j.cond[0] == "on": pred(j.cond[1])
            for it in q.items:
                if it.alias: aliases.append(it.alias.lower())
                expr(it.e)
            pred(q.where); pred(q.having)
    s = stmt
    if isinstance(s, CteInsert):
        for _, cq in s.ctes: counts["cte"] += 1; query(cq)
        s = s.ins
    tn = lambda t: (f"{t.schema}.{t.name}" if t.schema else t.name).lower()  # noqa: E731
    if isinstance(s, (Insert, Ctas, CreateView, SelectInto)):
        names.append(tn(s.tgt)); query(s.q)
    elif isinstance(s, Bare): query(s.q)
    elif isinstance(s, Update):
        names.append(tn(s.tgt))
        if s.tgt.alias: aliases.append(s.tgt.alias.lower())
        for g in s.frm:
            item(g.first)
            for j in g.joins: item(j.item)
    elif isinstance(s, Merge):
        names.append(tn(s.tgt)); item(s.src)
        if s.tgt.alias: aliases.append(s.tgt.alias.lower())
    elif isinstance(s, CreateLike): names.append(tn(s.tgt)); names.append(tn(s.src))
    elif isinstance(s, InsertValues): names.append(tn(s.tgt))
    else: return None
    return sorted(names), counts["select"], counts["cte"], sorted(aliases)


def parse_signature(sql, dialect):
    """the same coarse signature read off sqlfluff's own parse tree; None when the dialect rejects the text"""
    from vlib import rewrite
    from sqlfluff.core import SQLLexError, SQLParseError
    try:
        p = rewrite.linter(dialect).parse_string(sql)
    except Exception:  # noqa
        return None
    if not p.parsed_variants or any(isinstance(e, (SQLLexError, SQLParseError)) for e in p.violations) or p.tree is None:
        return None
    tree = p.tree
    names = [seg.raw.lower() for seg in tree.recursive_crawl("table_reference")]
    for into in tree.recursive_crawl("into_table_clause"):  # tsql: SELECT .. INTO target is an object_reference
        names += [seg.raw.lower() for seg in into.recursive_crawl("object_reference")]
    names.sort()
    nsel = sum(1 for _ in tree.recursive_crawl("select_statement"))
    ncte = sum(1 for _ in tree.recursive_crawl("common_table_expression"))
    aliases = []
    for a in tree.recursive_crawl("alias_expression"):
        ids = [x for x in a.segments if x.is_type("identifier", "naked_identifier", "quoted_identifier")]
        if ids: aliases.append(ids[-1].raw.lower())
        else: aliases.append(a.raw.lower())
    return names, nsel, ncte, sorted(aliases)


# ---------------- generic IR rewriting (used by the metamorphic properties C08 / C14)
def map_ir(node, f):
    """rebuild the IR bottom-up, replacing every dataclass node x by f(x') where x' has its children already rewritten"""
    import dataclasses
    if isinstance(node, tuple):
        return tuple(map_ir(x, f) for x in node)
    if dataclasses.is_dataclass(node) and not isinstance(node, type):
        kw = {fl.name: map_ir(getattr(node, fl.name), f) for fl in dataclasses.fields(node)}
        return f(type(node)(**kw))
    return node


def qualify(stmt, schema):
    """every unqualified base table written as schema.name (CTE names and aliases are never touched: they are not T nodes)"""
    return map_ir(stmt, lambda x: T(schema, x.name, x.alias, x.as_kw) if isinstance(x, T) and x.schema is None else x)
