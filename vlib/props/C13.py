"""C13 - metadata only refines column attribution.

Generator : IR statements over schema-qualified tables drawn from shape templates (star over 1-3 relations, unqualified columns over
            joins / comma joins, qualified columns, derived tables and CTEs over known tables, INSERT with / without column list,
            CTAS, CREATE VIEW) x every assignment {known with columns | unknown} to the tables in scope (column overlap none / partial)
            x target known / unknown; providers: dict-backed DummyMetaDataProvider and SQLAlchemyMetaDataProvider on in-memory sqlite
            with one ATTACHed database per schema.
Oracle    : (1) differential with / without provider: table summaries identical; statements touching only unknown tables give exactly the
            no-provider result; (2) reference model vlib/sqlir.expected(stmt, md): star over a known table = exactly its columns, an
            unqualified multi-scope column = exactly the in-scope known tables listing it (else unresolved, never a known table lacking
            it), INSERT without column list into a known target named by position, explicit list wins; (3) both providers agree.
"""
from __future__ import annotations

import itertools
import json
import os

from vlib import observe, runner
from vlib import sqlir as ir
from vlib.props import C01, C02

ID = "C13"
LEVEL = "exploration"
EXHAUSTIVE = False
EXHAUSTIVE_STREAMS = {'enumerated': 'every template x every knowledge assignment (complete)', 'script': 'every template x 4 assignments x every (statement before, statement after) from 9 extras (complete in thorough; a seed-rotated third in quick)', 'random': 'sampled'}
RULE = ("case = (IR statement over schema-qualified tables, knowledge assignment: each table of the scope and the target known-with-columns or unknown, "
        "provider kind). enumerated stream: every shape template x every knowledge assignment over <= 3 scope tables + target (bounded-exhaustive); "
        "script stream: every template between every pair of extra statements (write-only, read-only, DROP, feeding / reading the template's tables), judged on table "
        "lineage only; random stream: Hypothesis over templates, column sets (overlap none/partial) and assignments. Non-trivial = >= 1 known table in a scope of >= 2 "
        "relations, or a star over a known table; distinct = distinct (SQL, metadata).")
ASSUMPTIONS = [
    "tables are schema-qualified (the implementation consults metadata for unresolved columns only on tables with a known schema, as the property's quantifier says)",
    "star over several relations is generated only when they are all known with pairwise disjoint columns or all unknown (mixed / overlapping stars are the listed findings K-star-mixed-meta and K-meta-star-shared)",
    "INSERT without column list into a known target is generated with matching arity",
    "the SQLAlchemy provider runs on in-memory sqlite (sqlite://) with ATTACH ':memory:' AS <schema>",
]

TABLES = [("s1", "ta"), ("s1", "tb"), ("s2", "tc"), ("s0", "ta")]  # the last one is never known to the provider: same bare name as TABLES[0], sorts before it
TGT = ("s9", "tgt")
COLSETS = {  # per table position: candidate column sets; overlap patterns are produced by combining them
    0: [["c1", "c2", "k"], ["c1", "k"]],
    1: [["d1", "d2", "k2"], ["c1", "d1", "k2"]],  # second entry overlaps table 0 on c1
    2: [["e1", "k3"], ["d1", "e1"]],
}


OTHER_DIALECTS = ["postgres", "redshift", "sparksql", "mysql", "snowflake", "bigquery", "tsql", "duckdb", "greenplum", "hive", "trino", "oracle"]


def T(i, alias=None):
    s, n = TABLES[i]
    return ir.T(s, n, alias, True)


def q(i):
    return f"{TABLES[i][0]}.{TABLES[i][1]}"


def templates():
    """(name, builder() -> (stmt, scope table indices, flags)) ; flags: star_multi, unq"""
    C, I = ir.Col, ir.Item
    on = lambda a, b: ("on", ir.Cmp(C(q(a), "k"), "=", C(q(b), "k2")))  # noqa: E731
    tgt = ir.T(*TGT)

    def ins(qr, cols=None, kind="insert"):
        if kind == "insert":
            return ir.Insert(tgt, cols, qr, "INSERT INTO", False)
        if kind == "ctas":
            return ir.Ctas(tgt, qr, "CREATE TABLE", False)
        return ir.CreateView(tgt, cols, qr, "CREATE VIEW", False)

    one = (ir.FromGroup(T(0)),)
    join2 = (ir.FromGroup(T(0), (ir.Join("JOIN", T(1), on(0, 1)),)),)
    comma2 = (ir.FromGroup(T(0)), ir.FromGroup(T(1)))
    join3 = (ir.FromGroup(T(0), (ir.Join("LEFT JOIN", T(1), on(0, 1)), ir.Join("JOIN", T(2), ("on", ir.Cmp(C(q(0), "k"), "=", C(q(2), "k3"))))),),)
    out = []
    for kind in ("insert", "ctas", "view"):
        out.append((f"star_one:{kind}", lambda kind=kind: (ins(ir.Select((I(ir.Star(None)),), one), None, kind), [0], {"star"})))
        out.append((f"star_join2:{kind}", lambda kind=kind: (ins(ir.Select((I(ir.Star(None)),), join2), None, kind), [0, 1], {"star", "star_multi"})))
        out.append((f"unq_join2:{kind}", lambda kind=kind: (ins(ir.Select((I(C(None, "c1")), I(C(None, "d2")), I(C(None, "zz"))), join2), None, kind), [0, 1], {"unq"})))
        out.append((f"unq_comma2:{kind}", lambda kind=kind: (ins(ir.Select((I(C(None, "c2")), I(C(None, "d1"), "o2")), comma2), None, kind), [0, 1], {"unq"})))
    out += [
        ("star_join3:insert", lambda: (ins(ir.Select((I(ir.Star(None)),), join3)), [0, 1, 2], {"star", "star_multi"})),
        ("qstar_join2:insert", lambda: (ins(ir.Select((I(ir.Star(q(1))),), join2)), [0, 1], {"star"})),
        ("unq_join3:insert", lambda: (ins(ir.Select((I(C(None, "c1")), I(C(None, "e1")), I(ir.Func("coalesce", (C(None, "d1"), C(None, "k3"))), "o3")), join3)), [0, 1, 2], {"unq"})),
        ("qualified_join2:insert", lambda: (ins(ir.Select((I(C(q(0), "c1")), I(C(q(1), "d1"), "o2")), join2)), [0, 1], set())),
        ("derived_star:insert", lambda: (ins(ir.Select((I(ir.Star(None)),), (ir.FromGroup(ir.Derived(ir.Select((I(ir.Star(None)),), one), "d", True)),))), [0], {"star"})),
        ("derived_cols_of_star:insert", lambda: (ins(ir.Select((I(C("d", "c1")),), (ir.FromGroup(ir.Derived(ir.Select((I(ir.Star(None)),), one), "d", True)),))), [0], {"star", "named_through_star"})),
        ("cte_star_body:insert", lambda: (ins(ir.With((("q1", ir.Select((I(ir.Star(None)),), one)),), ir.Select((I(C("q1", "c1")), I(C("q1", "k"))), (ir.FromGroup(ir.CteRef("q1")),)))), [0], {"star", "named_through_star"})),
        ("explicit_list_unknown_or_known_target", lambda: (ins(ir.Select((I(C(q(0), "c1")), I(C(q(0), "k"))), one), ("x1", "x2")), [0], {"explicit"})),
        # an explicit list that is a PERMUTATION of the known target's columns: the list decides, not the metadata order
        ("explicit_list_permuting_known_target", lambda: (ins(ir.Select((I(C(q(0), "c1")), I(C(q(0), "k"))), one), ("t2", "t1")), [0], {"explicit_perm"})),
        ("explicit_list_permuting_known_target_join", lambda: (ins(ir.Select((I(C(q(0), "c1")), I(C(q(1), "d1"), "o2")), join2), ("t2", "t1")), [0, 1], {"explicit_perm"})),
        ("positional_target", lambda: (ins(ir.Select((I(C(q(0), "c1")), I(C(q(0), "k"), "kk")), one)), [0], {"positional"})),
        ("positional_target_unq", lambda: (ins(ir.Select((I(C(None, "c1")), I(C(None, "d1"))), join2)), [0, 1], {"positional", "unq"})),
        # an UNKNOWN table with the same bare name as a known one, in another schema (both aliased); two unqualified columns
        ("unq_same_barename_unknown:insert", lambda: (ins(ir.Select((I(C(None, "c1")), I(C(None, "k"), "kk")), (ir.FromGroup(T(3, "x"), (ir.Join("JOIN", T(0, "y"), ("on", ir.Cmp(C("x", "k9"), "=", C("y", "c1")))),)),))), [0], {"unq"})),
        ("unq_same_barename_unknown_comma:ctas", lambda: (ins(ir.Select((I(C(None, "c1")), I(C(None, "k"), "kk")), (ir.FromGroup(T(0, "y")), ir.FromGroup(T(3, "x")))), None, "ctas"), [0], {"unq"})),
        # a constant between two columns: it occupies a position of the known target
        ("positional_target_const", lambda: (ins(ir.Select((I(C(q(0), "c1")), I(ir.Lit("0")), I(C(q(0), "k"), "kk")), one)), [0], {"positional", "arity3"})),
        ("star_union:insert", lambda: (ins(ir.SetOp(("UNION ALL",), (ir.Select((I(ir.Star(None)),), one), ir.Select((I(ir.Star(None)),), (ir.FromGroup(T(1)),))))), [0, 1], {"star", "star_union"})),
    ]
    return out


# INSERT without column list: target columns that are the select list's own names in ANOTHER order (positions must still win over names)
PERMUTED_TARGET = {"positional_target": ["kk", "c1"], "positional_target_unq": ["d1", "c1"], "positional_target_const": ["kk", "t2", "c1"]}


def assignments(scope, with_target, name=None):
    """every knowledge assignment: per scope table None (unknown) or one of its column sets; target None or a 2-column set"""
    choices = [[None] + COLSETS[i] for i in scope]
    tgt_choices = [None, ["t1", "t2"]] if with_target else [None]
    if with_target and name == "positional_target_const":
        tgt_choices = [None, ["t1", "t2", "t3"]]
    if with_target and name in PERMUTED_TARGET:
        tgt_choices.append(PERMUTED_TARGET[name])
    for combo in itertools.product(*choices):
        for tg in tgt_choices:
            md = {q(i): cols for i, cols in zip(scope, combo) if cols is not None}
            if tg:
                md["s9.tgt"] = tg
            yield md


def in_domain(stmt, flags, md, scope):
    known = [q(i) for i in scope if q(i) in md]
    if "star_multi" in flags:
        if 0 < len(known) < len(scope):
            return False, "star_over_mixed_known_unknown"
        cols = [c for t in known for c in md[t]]
        if len(cols) != len(set(cols)):
            return False, "star_over_tables_sharing_a_column"
    if "star_union" in flags and known:
        return False, "star_union_over_known_tables(K-star-union-meta)"
    if "named_through_star" in flags and not known:
        return False, "named_column_through_star_of_unknown_table"
    if "named_through_star" in flags and known and "c1" not in md[known[0]]:
        return False, "named_column_not_defined"
    if "explicit" in flags and "s9.tgt" in md:
        return False, "explicit_list_with_known_target(K-explicit-cols-meta)"
    if "positional" in flags and "s9.tgt" in md and len(md["s9.tgt"]) != (3 if "arity3" in flags else 2):
        return False, "arity"
    if "star" in flags and "s9.tgt" in md and isinstance(stmt, ir.Insert):
        return False, "star_into_known_target"
    if "unq" in flags and "s9.tgt" in md and isinstance(stmt, ir.Insert) and "positional" not in flags:
        return False, "arity"
    return True, None


def make_sqlalchemy(md):
    from sqllineage.core.metadata.sqlalchemy import SQLAlchemyMetaDataProvider

    p = SQLAlchemyMetaDataProvider("sqlite://")
    with p.engine.connect() as c:
        for schema in sorted({k.split(".")[0] for k in md}):
            c.exec_driver_sql(f"ATTACH ':memory:' AS {schema}")
        for k, cols in md.items():
            c.exec_driver_sql(f"create table {k} (" + ", ".join(f"{x} int" for x in cols) + ")")
        c.commit()
    return p


def view(sql, md, provider_kind, dialect="ansi"):
    try:
        if not md:
            lr = observe.runner_of(sql, dialect)
        elif provider_kind == "dummy":
            lr = observe.runner_of(sql, dialect, metadata=md)
        else:
            lr = observe.runner_of(sql, dialect, provider=make_sqlalchemy(md))
        return {"S": [str(t) for t in lr.source_tables], "T": [str(t) for t in lr.target_tables], "I": [str(t) for t in lr.intermediate_tables],
                "pairs": [list(p) for p in observe.pairs(lr)]}
    except Exception as e:  # noqa
        return {"EXC": observe.exc_name(e), "msg": str(e)[:200]}


def three_part(x):
    """the same case with every schema-qualified table moved into a catalog (s1.ta -> dbz.s1.ta): text, metadata keys, reference answer"""
    import re

    if isinstance(x, str):
        return re.sub(r"\b(s[0-9])\.", r"dbz.\1.", x)
    if isinstance(x, dict):
        return {three_part(k): (v if k in ("metadata_columns",) else three_part(v)) for k, v in x.items()}
    if isinstance(x, (list, tuple)):
        return type(x)(three_part(v) for v in x)
    return x


def check(stmt_sql, exp, md, scope_tables, sqlalchemy=True, dialect="ansi"):
    """returns None | detail"""
    base = view(stmt_sql, None, None, dialect)
    got = view(stmt_sql, md, "dummy", dialect)
    if "EXC" in base or "EXC" in got:
        if base.get("EXC") != got.get("EXC"):
            return {"what": "raises with / without metadata differently", "without": base.get("EXC"), "with": got.get("EXC"), "msg": got.get("msg")}
        return None
    for k in ("S", "T", "I"):
        if base[k] != got[k]:
            return {"what": f"metadata changes table lineage ({k})", "without": base[k], "with": got[k]}
    if not any(t in md for t in scope_tables) and not any(k.endswith("s9.tgt") for k in md):
        if base["pairs"] != got["pairs"]:
            return {"what": "only unknown tables involved but the result differs from the no-provider result", "without": base["pairs"], "with": got["pairs"]}
    e, g = C02.norm_pairs(exp[2]), C02.norm_pairs(got["pairs"])
    if e != g:
        return {"what": "column pairs differ from the reference model with metadata", "missing": [list(p) for p in sorted(set(e) - set(g))],
                "extra": [list(p) for p in sorted(set(g) - set(e))]}
    if md and sqlalchemy:
        sa = view(stmt_sql, md, "sqlalchemy", dialect)
        if sa != got:
            return {"what": "the two bundled providers disagree", "dummy": got.get("pairs"), "sqlalchemy": sa.get("pairs") or sa}
    return None


def classify(case, detail):
    """K-drop-known-table: DROP TABLE x leaves x in the result when the provider knows x (its metadata columns count as wiring);
    trigger = the script drops a table the metadata lists, symptom = the table summaries differ by exactly the dropped tables"""
    import re

    if case.get("script") and "changes table lineage of a script" in detail.get("what", ""):
        dropped = {t.lower() for t in re.findall(r"drop table (?:if exists )?([\w.]+)", case["sql"], flags=re.I)} & set(case["metadata"])
        a, b = detail.get("without"), detail.get("with")
        if dropped and isinstance(a, list) and isinstance(b, list) and all(isinstance(x, str) for x in a + b) and set(a) ^ set(b) <= dropped:
            return "K-drop-known-table@C13"
    return None


def judge(stmt, name, scope, flags, md, res, ctx, stream):
    ok, why = in_domain(stmt, flags, md, scope)
    if not ok:
        res.discard("excluded:" + why)
        return None
    sql = ir.r_stmt(stmt)
    exp = ir.expected(stmt, md)
    scope_tables = [q(i) for i in scope]
    known_in_scope = [t for t in scope_tables if t in md]
    nt = (bool(known_in_scope) and len(scope) >= 2) or ("star" in flags and bool(known_in_scope))
    c = {"sql": sql, "metadata": md, "expected": {"S": exp[0], "T": exp[1], "pairs": [list(p) for p in exp[2]]}, "scope": scope_tables}
    res.case((sql, json.dumps(md, sort_keys=True)), nt, labels=[stream, "template:" + name.split(":")[0], f"known_tables={len(known_in_scope)}/{len(scope)}"] +
             (["target_known"] if "s9.tgt" in md else []) + sorted("flag:" + f for f in flags), sample=c)
    d = check(sql, exp, md, scope_tables)
    if d is None and stream == "enumerated":
        # the same case over three-part names (catalog.schema.table), dict-backed provider only (sqlite has no catalogs)
        md3 = {three_part(k): v for k, v in md.items()}
        c3 = {"sql": three_part(sql), "metadata": md3, "expected": {"S": three_part(exp[0]), "T": three_part(exp[1]), "pairs": three_part([list(p) for p in exp[2]])},
              "scope": three_part(scope_tables), "three_part": True}
        res.case((c3["sql"], json.dumps(md3, sort_keys=True)), nt, labels=["enumerated_three_part_names"], sample=None)
        d = check(c3["sql"], (c3["expected"]["S"], c3["expected"]["T"], [tuple(p) for p in c3["expected"]["pairs"]]), md3, c3["scope"], sqlalchemy=False)
        if d is not None:
            c = c3
    if d is None and stream == "enumerated":
        # ... and under a second dialect (rotating; only where that dialect's parser reads the text like the IR): the meaning of metadata
        # does not depend on the dialect, whatever statement type its grammar gives e.g. CREATE TABLE AS
        k0 = (len(sql) + len(md) * 7 + len(name)) % len(OTHER_DIALECTS)
        for dialect in ([OTHER_DIALECTS[(k0 + j * 4) % len(OTHER_DIALECTS)] for j in range(3)] if ctx.quick else OTHER_DIALECTS):
            if not C01.accepted(stmt, sql, dialect):
                res.discard("other_dialect_rejects_or_reads_differently:" + dialect)
                continue
            res.case((sql, json.dumps(md, sort_keys=True), dialect), nt, labels=["enumerated_other_dialect", "dialect:" + dialect], sample=None)
            d = check(sql, exp, md, scope_tables, sqlalchemy=False, dialect=dialect)
            if d is not None:
                c = dict(c, dialect=dialect)
                break
    if d is None:
        return None
    fid = classify(c, d)
    if fid and fid in ctx.active:
        res.known(fid, c)
        return None
    if os.environ.get("VERIF_COLLECT"):
        res.known("UNLISTED | " + d["what"] + " | " + name, c)
        return None
    return {"kind": stream, "case": c, "detail": d}


def _enum_worker(payload):
    shard, nshards, ctx = payload
    res = runner.Res()
    idx = 0
    for name, build in templates():
        stmt, scope, flags = build()
        with_target = isinstance(stmt, (ir.Insert, ir.Ctas))  # a known CTAS target must change nothing: metadata names INSERT positions only
        for md in assignments(scope, with_target, name):
            idx += 1
            if idx % nshards != shard:
                continue
            v = judge(stmt, name, scope, flags, md, res, ctx, "enumerated")
            if v is not None and len(res.violations) < 4:
                res.violation(v["kind"], v["case"], v["detail"])
    return res


def _random_worker(payload):
    shard, n, ctx = payload
    from hypothesis import strategies as st

    res = runner.Res()
    tpls = templates()
    colpool = ["c1", "c2", "d1", "d2", "e1", "k", "k2", "k3", "zz", "c9"]

    def body(case, res_):
        ti, cols, tg = case
        name, build = tpls[ti % len(tpls)]
        stmt, scope, flags = build()
        md = {q(i): list(c) for i, c in zip(scope, cols) if c}
        if tg and isinstance(stmt, (ir.Insert, ir.Ctas)):
            md["s9.tgt"] = PERMUTED_TARGET[name] if name in PERMUTED_TARGET and ti % 2 else (["t1", "t2", "t3"] if name == "positional_target_const" else ["t1", "t2"])
        return judge(stmt, name, scope, flags, md, res_, ctx, "random")

    colset = st.one_of(st.none(), st.lists(st.sampled_from(colpool), min_size=1, max_size=5, unique=True))
    runner.hyp_run(st.tuples(st.integers(0, 100), st.tuples(colset, colset, colset), st.booleans()), body, res,
                   seed=runner.derive_seed(ctx.seed, "C13", shard), max_examples=n, ctx=ctx)
    return res


EXTRAS = [
    None,
    "INSERT INTO s3.t VALUES (1, 2)",          # written without any source: an edge-less target
    "CREATE TABLE s3.u (a int, b int)",
    "UPDATE s3.w SET a = 1",
    "SELECT a FROM s3.r",                       # read only
    "INSERT INTO s4.x SELECT c1 FROM s9.tgt",   # reads the template's target
    "INSERT INTO s1.ta SELECT z, z2 FROM s5.src",  # feeds one of the template's sources
    "DROP TABLE s3.t",
    "INSERT INTO s9.tgt VALUES (1, 2)",
]


def script_cases():
    """multi-statement scripts: [extra;] template statement [; extra] x three knowledge assignments; the oracle is the first clause only
    (table-level lineage with the provider = without it)"""
    for name, build in templates():
        stmt, scope, flags = build()
        mds = [{q(i): COLSETS[i][0] for i in scope}, {q(i): COLSETS[i][1] for i in scope}, {q(scope[0]): COLSETS[scope[0]][0]}]
        mds.append(dict(mds[0], **{"s9.tgt": ["t1", "t2"], "s3.t": ["a", "b"]}))
        body = ir.r_stmt(stmt)
        for mi, md in enumerate(mds):
            for pre in EXTRAS:
                for post in EXTRAS:
                    if pre is None and post is None:
                        continue
                    yield name, ";\n".join(x for x in (pre, body, post) if x), md, mi


def table_view(sql, md, provider_kind):
    try:
        if not md:
            lr = observe.runner_of(sql, "ansi")
        elif provider_kind == "dummy":
            lr = observe.runner_of(sql, "ansi", metadata=md)
        else:
            lr = observe.runner_of(sql, "ansi", provider=make_sqlalchemy(md))
        return {"S": [str(t) for t in lr.source_tables], "T": [str(t) for t in lr.target_tables], "I": [str(t) for t in lr.intermediate_tables],
                "cyT": observe.cyto(lr.to_cytoscape())}
    except Exception as e:  # noqa
        return {"EXC": observe.exc_name(e)}


def check_script(sql, md, with_sqlalchemy):
    base = table_view(sql, None, None)
    for kind in ("dummy", "sqlalchemy") if with_sqlalchemy else ("dummy",):
        got = table_view(sql, md, kind)
        for k in ("EXC", "S", "T", "I", "cyT"):
            if base.get(k) != got.get(k):
                return {"what": f"metadata changes table lineage of a script ({k})", "provider": kind, "without": base.get(k), "with": got.get(k)}
    return None


def _script_worker(payload):
    shard, nshards, ctx = payload
    res = runner.Res()
    for idx, (name, sql, md, mi) in enumerate(script_cases()):
        if idx % nshards != shard:
            continue
        if ctx.quick and (idx // nshards) % 3 != ctx.seed % 3:
            continue  # quick: a third of the enumeration, rotating with the seed
        c = {"script": True, "sql": sql, "metadata": md}
        res.case((sql, json.dumps(md, sort_keys=True)), True, labels=["script", "script_template:" + name.split(":")[0]], sample=c if idx % 97 == 0 else None)
        d = check_script(sql, md, with_sqlalchemy=(idx % 8 == 0))
        if d is None:
            continue
        fid = classify(c, d)
        if fid and fid in ctx.active:
            res.known(fid, c)
        elif os.environ.get("VERIF_COLLECT"):
            res.known("UNLISTED script | " + d["what"] + " | " + name, c)
        elif len(res.violations) < 4:
            res.violation("script", c, d)
    return res


def replay(case):
    if case.get("script"):
        d = check_script(case["sql"], case["metadata"], True)
        return None if d is None else {"kind": "replay", "case": case, "detail": d}
    e = case["expected"]
    d = check(case["sql"], (e["S"], e["T"], [tuple(p) for p in e["pairs"]]), case["metadata"], case.get("scope", []),
              sqlalchemy=not case.get("three_part") and not case.get("dialect"), dialect=case.get("dialect", "ansi"))
    return None if d is None else {"kind": "replay", "case": case, "detail": d}


def run(ctx):
    nshards = runner.NCPU
    res = runner.merge_all(runner.pmap(_enum_worker, [(i, nshards, ctx) for i in range(nshards)]))
    res.merge(runner.merge_all(runner.pmap(_script_worker, [(i, nshards, ctx) for i in range(nshards)])))
    n = ctx.n(800, 16000)
    res.merge(runner.merge_all(runner.pmap(_random_worker, [(i, n // runner.NCPU, ctx) for i in range(runner.NCPU)])))
    return res
