"""C11 - analysis is deterministic.

Every case (corpus statement with its dialect and metadata, TPC-DS script, generated set-heavy script) is dumped
canonically (vlib/observe.py: summaries, column paths under all flag settings, both graph exports as sets, text
summary, statement count) in SEPARATE interpreter processes started with different PYTHONHASHSEED values
(4 quick / 32 thorough); all dumps must be identical.  Inside each process a second runner is queried with the
accessors in a permuted order and repeatedly; every answer must equal the first dump.
"""
from __future__ import annotations

import json
import os
import re
import subprocess
import sys

from vlib import corpus, runner

ID = "C11"
LEVEL = "exploration"
RULE = ("case = (script, dialect, metadata) from {harvested test-suite SQL incl. its metadata, bundled TPC-DS, Hypothesis-generated scripts built from "
        "set-heavy templates: stars over joins with metadata sharing column names, unqualified columns over several tables, equal-text subqueries, "
        "union branches with equal endpoints, multi-pair renames}; each case is analysed under every hash seed of the tier in a fresh interpreter, and "
        "under a permuted/repeated accessor order. Non-trivial = the result has >= 2 tables or >= 2 column paths (a singleton cannot be reordered); "
        "distinct = distinct (script, dialect, metadata).")
ASSUMPTIONS = [
    "anonymous subquery names subquery_<hash> are canonicalised; graph exports are compared as sets (edge ids e<i> and array order are positional noise)",
    "an exception is part of the observation: raising under one hash seed and not under another is a violation",
]
_CHILD = os.path.join(os.path.dirname(os.path.dirname(os.path.abspath(__file__))), "c11_child.py")

TABLES = ["s.t1", "s.t2", "s.t3", "s.t4", "t5", "t6"]
COLS = ["c1", "c2", "c3", "k"]
TEMPLATES = [
    ("ansi", "insert into {w} select * from {a} join {b} on {a}.k = {b}.k"),
    ("ansi", "insert into {w} select {c}, {d} from {a}, {b}"),
    ("ansi", "insert into {w} select x.{c}, y.{d} from (select * from {a}) x join (select * from {b}) y on x.k = y.k"),
    ("ansi", "create table {w} as select {c} from {a} union all select {c} from {b}"),
    ("ansi", "insert into {w} select case when (select max({c}) from {a}) > 0 then (select max({c}) from {a}) else 0 end as v from {b}"),
    ("mysql", "rename table {a} to {w}, {b} to {e}"),
    ("ansi", "insert into {w} select {c} from {a} where {c} in (select {c} from {b})"),
    ("ansi", "with q as (select * from {a}) insert into {w} select q.{c}, {b}.{d} from q join {b} on q.k = {b}.k"),
    ("ansi", "insert into {w} select {a}.{c} + {b}.{c} as {c}, {a}.{d} from {a} join {b} on {a}.k = {b}.k"),
    ("ansi", "insert into {w} select {c} from (select {c} from {a}) x union all select {c} from (select {c} from {a}) y"),
    ("ansi", "insert into {w} select * from {a}"),
    ("ansi", "select * from {a}, {b}, {e}"),
    ("ansi", "insert into {w} select coalesce(x.{c}, y.{c}) as {c} from {a} x full outer join {b} y using (k)"),
    ("ansi", "update {w} set {c} = {a}.{c} from {a} where {a}.k = {w}.k"),
    ("ansi", "drop table {a}"),
    ("ansi", "alter table {a} rename to {w}"),
    # two in-scope tables with the same bare name in different schemas, referenced through the bare name / alias
    ("ansi", "insert into {w} select t1.{c}, p.{d} from s.t1 join s2.t1 p on t1.k = p.k"),
    ("ansi", "insert into {w} select t2.{c} from s2.t2 p, s.t2 where t2.k = p.k"),
    ("ansi", "insert into {w} select t3.{c}, t3.{d} from s.t3 join s2.t3 on s.t3.k = s2.t3.k"),
    # scripts that fail part-way: every accessor must keep raising the same exception, in any order, any number of times
    ("ansi", "insert into {w} select {c} from {a}; create index i1 on {a} (k); insert into {e} select {d} from {w}"),
    ("ansi", "insert into {w} select {c} from {a}; selec {c} frm {b}"),
    ("ansi", "grant select on {a} to u1"),
    # same bare name in different schemas across query blocks (outer FROM item vs table inside a derived table / predicate subquery), UPDATE and MERGE too
    ("ansi", "update {w} set {c} = t4.{c} from s.t4 join (select k from s2.t4) q on t4.k = q.k where {w}.k = t4.k"),
    ("ansi", "merge into {w} using (select p.k, p.{c} from s.t5 p join s2.t5 on p.k = s2.t5.k) q on {w}.k = q.k when matched then update set {c} = q.{c}"),
    ("ansi", "insert into {w} select t6.{c} from s.t6 where t6.k in (select k from s2.t6)"),
    ("ansi", "insert into {w} select q.{c}, t1.{d} from (select {c}, k from s2.t1) q join s.t1 on t1.k = q.k"),
    ("ansi", "update {w} set {c} = q.{c} from (select t2.{c}, t2.k from s.t2 join s2.t2 x on t2.k = x.k) q, s2.t2 where {w}.k = q.k"),
]


REWRITE_OPS = [
    "create table s.w9 as select {c1}, {c2}, {c3} from s.t1",
    "insert into s.w9 select {c1}, {c2}, {c3} from s.t2",
    "insert into s.w9 select x1, x2, x3 from s2.t3",                 # positional: other names than the target's
    "insert into s.w9 ({c3}, {c1}) select y1, y2 from s2.t4",
    "insert into s.w9 select * from s.t5",
]


def rewrite_scripts(quick, seed):
    """one table written 2-4 times in one script (CTAS, INSERT by name / by position / with a column list / star) and then read by star and by
    position, with a truthy provider that knows another table and one that knows the sources: the session's knowledge of the table is
    re-registered by every write - its column ORDER must not depend on the hash seed (sets merged into lists, dict order, ...)"""
    import itertools

    out = []
    cols = dict(c1=COLS[2], c2=COLS[0], c3=COLS[1])
    tail = "insert into s.out select * from s.w9; insert into s.out2 select z1, z2, z3 from s.w9"
    mds = [{"s.other": ["q"]}, {"s.t5": [COLS[1], COLS[3 % len(COLS)], COLS[0]], "s.out2": ["o1", "o2", "o3"]}]
    k = 0
    for n in (2, 3, 4):
        for ops in itertools.product(range(len(REWRITE_OPS)), repeat=n):
            k += 1
            if n == 4 and quick and k % 7 != seed % 7:
                continue
            sql = ";\n".join(REWRITE_OPS[i].format(**cols) for i in ops) + ";\n" + tail
            out.append({"sql": sql, "dialect": "ansi", "metadata": mds[k % 2], "origin": "rewrite_chain"})
    return out


def gen_strategy():
    from hypothesis import strategies as st

    tbl = st.sampled_from(TABLES)
    col = st.sampled_from(COLS)
    stmt = st.tuples(st.integers(0, len(TEMPLATES) - 1), tbl, tbl, tbl, tbl, col, col)
    md = st.dictionaries(st.sampled_from([t for t in TABLES if "." in t]), st.lists(col, min_size=1, max_size=4, unique=True), max_size=4)
    return st.tuples(st.lists(stmt, min_size=1, max_size=4), st.one_of(st.none(), md))


def build_gen(case):
    stmts, md = case
    dialect = "ansi"
    parts = []
    for ti, w, a, b, e, c, d in stmts:
        dl, tpl = TEMPLATES[ti]
        if tpl.startswith("rename table") and len({a, b, w, e}) < 4:
            ti = 11  # an invalid multi-pair RENAME (a table renamed twice / a name created twice) is not generated
            dl, tpl = TEMPLATES[ti]
        if dl != "ansi":
            dialect = dl
        parts.append(tpl.format(w=w, a=a, b=b, e=e, c=c, d=d))
    return {"sql": ";\n".join(parts), "dialect": dialect, "metadata": md or None}


def collect_cases(ctx):
    cases = []
    for e in corpus.tests():
        if e.get("md_class") and e["md_class"] != "DummyMetaDataProvider":
            continue
        cases.append({"sql": e["sql"], "dialect": e["dialect"], "metadata": e.get("metadata"), "origin": "corpus"})
        if e.get("sqlparse") and e["dialect"] == "ansi" and not e.get("metadata") and (len(cases) + ctx.seed) % 3 == 0:
            cases.append({"sql": e["sql"], "dialect": "non-validating", "metadata": None, "origin": "corpus"})
    tp = corpus.tpcds()
    if ctx.quick:
        tp = tp[(ctx.seed % 8):: 8]
    cases += [{"sql": e["sql"], "dialect": "ansi", "metadata": None, "origin": "tpcds"} for e in tp]
    # every template once with fixed arguments (the random stream below draws them in scripts of 1-4 statements)
    for ti, (dl, tpl) in enumerate(TEMPLATES):
        cases.append({"sql": tpl.format(w="s.w1", a="s.t1", b="s2.t2", e="s.t3", c=COLS[0], d=COLS[1]), "dialect": dl, "metadata": None, "origin": "template"})
    cases += rewrite_scripts(ctx.quick, ctx.seed)
    # generated: Hypothesis is used as the seeded generator; the property is decided across processes afterwards
    gen = []

    def body(case, res):
        gen.append(build_gen(case))
        return None

    runner.hyp_run(gen_strategy(), body, runner.Res(), seed=runner.derive_seed(ctx.seed, "C11gen"), max_examples=ctx.n(500, 4000), ctx=ctx)
    seen = set()
    for g in gen:
        k = json.dumps(g, sort_keys=True)
        if k not in seen:
            seen.add(k)
            g["origin"] = "generated"
            cases.append(g)
    return cases


def run_child(payload):
    cases, hashseed, perm = payload
    env = {k: v for k, v in os.environ.items() if not k.startswith("SQLLINEAGE_")}
    env.update(PYTHONHASHSEED=str(hashseed), PYTHONDONTWRITEBYTECODE="1", VERIF_REPO=runner.REPO)
    r = subprocess.run([sys.executable, "-B", _CHILD], input=json.dumps({"cases": cases, "perm": perm}), env=env,
                       capture_output=True, text=True)
    if r.returncode != 0:
        raise runner.HarnessError(f"C11 child failed (hash seed {hashseed}): {r.stderr[-2000:]}")
    return json.loads(r.stdout)


def hash_seeds(ctx):
    n = 4 if ctx.quick else 32
    out = [0]
    k = 0
    while len(out) < n:
        k += 1
        s = runner.derive_seed(ctx.seed, "hashseed", k) % 4294967295 + 1
        if s not in out:
            out.append(s)
    return out


def first_diff(a, b):
    if ("EXC" in a) != ("EXC" in b):
        return {"what": "raises under one hash seed only", "a": a.get("EXC"), "b": b.get("EXC"), "msg": a.get("msg") or b.get("msg")}
    if "EXC" in a:
        if a["EXC"] != b["EXC"]:
            return {"what": "different exception types", "a": a["EXC"], "b": b["EXC"]}
        return None
    for k in a:
        if a[k] != b.get(k):
            return {"what": f"{k} differs", "a": a[k], "b": b.get(k)}
    return None


def classify(case, detail):
    """known instabilities on this tree, by trigger (input shape) + symptom (which part of the dump differs)"""
    what = detail.get("what", "")
    sql = case.get("sql", "").lower()
    for fid, pred in KNOWN.items():
        if pred(case, sql, what, detail):
            return fid
    return None


def equal_text_subqueries(sql):
    """trigger: some parenthesised SELECT text occurs at least twice in the script"""
    low = " ".join(sql.lower().split())
    seen = {}
    for i, ch in enumerate(low):
        if ch == "(" and low[i + 1:].lstrip().startswith("select"):
            depth, j = 0, i
            while j < len(low):
                if low[j] == "(":
                    depth += 1
                elif low[j] == ")":
                    depth -= 1
                    if depth == 0:
                        break
                j += 1
            body = low[i:j + 1].replace(" ", "")
            seen[body] = seen.get(body, 0) + 1
    return any(v >= 2 for v in seen.values())


_NOT_ALIAS = {"on", "join", "where", "union", "and", "or", "left", "right", "cross", "inner", "full", "group", "order", "having", "limit", "using",
              "then", "else", "end", "when", "from", "select", "except", "intersect", "is", "in", "not", "between", "like", "natural", "window"}


def equal_text_subqueries_named_differently(sql):
    """narrower trigger: some parenthesised SELECT text occurs under two different names (two aliases, or an alias and none): the
    collapsed node is then named after whichever occurrence the hash order puts first"""
    low = " ".join(sql.lower().split())
    seen = {}
    for i, ch in enumerate(low):
        if ch == "(" and low[i + 1:].lstrip().startswith("select"):
            depth, j = 0, i
            while j < len(low):
                if low[j] == "(":
                    depth += 1
                elif low[j] == ")":
                    depth -= 1
                    if depth == 0:
                        break
                j += 1
            m = re.match(r"\s*(?:as\s+)?([a-z_][a-z0-9_]*)", low[j + 1:])
            alias = m.group(1) if m and m.group(1) not in _NOT_ALIAS else None
            seen.setdefault(low[i:j + 1].replace(" ", ""), set()).add(alias)
    return any(len(v) >= 2 for v in seen.values())


def only_compound_parent_naming(detail):
    """symptom: the column-level export differs only in which alias names the compound parent of subquery columns"""
    if detail.get("what") != "cyC differs":
        return False
    a, b = detail["a"], detail["b"]
    if a["edges"] != b["edges"]:
        return False

    def strip(nodes):
        out = []
        for n in nodes:
            d = json.loads(n)
            if d.get("type") == "SubQuery":
                continue
            d.pop("parent", None)
            out.append(json.dumps(d, sort_keys=True))
        return sorted(out)

    return strip(a["nodes"]) == strip(b["nodes"])


def meta_star_shared(case, detail):
    """trigger: metadata knows >= 2 tables that share a column name and the script selects '*';
    symptom: the differing (source, target) pairs all concern such shared column names"""
    md = case.get("metadata") or {}
    if "*" not in case.get("sql", ""):
        return False
    count = {}
    for cols in md.values():
        for c in set(cols):
            count[c.lower()] = count.get(c.lower(), 0) + 1
    shared = {c for c, n in count.items() if n >= 2}
    if not shared:
        return False
    a, b = detail.get("a"), detail.get("b")
    if detail.get("what") not in ("C differs", "Cfull differs", "Cnosq differs") or not isinstance(a, list):
        return False
    sa, sb = {json.dumps(p) for p in a}, {json.dumps(p) for p in b}
    diff = [json.loads(p) for p in sa ^ sb]
    return bool(diff) and all(p[0].split(".")[-1] in shared for p in diff)


KNOWN = {
    "K-meta-star-shared@C11": lambda case, sql, what, detail: meta_star_shared(case, detail),
    "K-eqtext-subq@C11": lambda case, sql, what, detail: equal_text_subqueries(case.get("sql", "")) and only_compound_parent_naming(detail),
}


def nontrivial(d):
    if "EXC" in d:
        return False
    return len(set(d["S"]) | set(d["T"]) | set(d["I"])) >= 2 or len(d["Cfull"]) >= 2


def compare_all(cases, ctx, seeds):
    """returns list of (case index, detail) for unstable cases + per-case first dumps"""
    shards = max(1, runner.NCPU // len(seeds)) if ctx.quick else 1
    if not ctx.quick:
        shards = 2
    # cost-balanced shards: long scripts first, dealt round-robin
    order = sorted(range(len(cases)), key=lambda i: -len(cases[i]["sql"]))
    parts = [order[s::shards] for s in range(shards)]
    payloads = []
    for hs in seeds:
        for s in range(shards):
            payloads.append(([{k: cases[i][k] for k in ("sql", "dialect", "metadata")} for i in parts[s]], hs, ctx.seed + s))
    outs = runner.pmap(run_child, payloads, procs=runner.NCPU)
    results = {}
    for (hs_idx, hs) in enumerate(seeds):
        for s in range(shards):
            out = outs[hs_idx * shards + s]
            for i, o in zip(parts[s], out):
                results.setdefault(i, []).append((hs, o))
    unstable = []
    for i, lst in results.items():
        base_hs, base = lst[0]
        d = None
        for hs, o in lst:
            if o["order"] is not None:
                d = {"what": "accessor order/repetition changes an answer", "hash_seed": hs, **o["order"]}
                break
        if d is None:
            for hs, o in lst[1:]:
                d = first_diff(base["dump"], o["dump"])
                if d is not None:
                    d["hash_seeds"] = [base_hs, hs]
                    break
        if d is not None:
            unstable.append((i, d))
    return unstable, {i: lst[0][1]["dump"] for i, lst in results.items()}


def reduce_case(case, seeds, ctx):
    """try single statements of a multi-statement script: report the smallest still-unstable text"""
    from sqllineage.utils.helpers import split

    try:
        parts = split(case["sql"])
    except Exception:  # noqa
        return case
    if len(parts) < 2:
        return case
    cands = [dict(case, sql=p) for p in parts]
    unstable, _ = compare_all(cands, ctx, seeds)
    if unstable:
        i = min(unstable, key=lambda u: len(cands[u[0]]["sql"]))[0]
        return cands[i]
    return case


def replay(case):
    ctx = runner.Ctx(ID, "quick", 1)
    seeds = case.get("hash_seeds") or hash_seeds(ctx)
    if 0 not in seeds:
        seeds = [0] + list(seeds)
    seeds = list(dict.fromkeys(list(seeds) + hash_seeds(ctx)))[:6]
    unstable, _ = compare_all([case], ctx, seeds)
    if unstable:
        return {"kind": "replay", "case": case, "detail": unstable[0][1]}
    return None


def run(ctx):
    res = runner.Res()
    cases = collect_cases(ctx)
    seeds = hash_seeds(ctx)
    unstable, dumps = compare_all(cases, ctx, seeds)
    for i, c in enumerate(cases):
        d = dumps.get(i, {"EXC": "?"})
        res.case((c["sql"], c["dialect"], json.dumps(c.get("metadata"), sort_keys=True)), nontrivial(d),
                 labels=["origin:" + c["origin"], "dialect:" + c["dialect"]] + (["with_metadata"] if c.get("metadata") else []) +
                        (["raises"] if "EXC" in d else []),
                 sample={k: c[k] for k in ("sql", "dialect", "metadata")} if len(c["sql"]) < 300 else None)
    res.extra["hash_seeds"] = seeds
    res.extra["processes_per_case"] = len(seeds)
    n_reduced = 0
    for i, d in unstable:
        c = {k: cases[i][k] for k in ("sql", "dialect", "metadata")}
        fid = classify(c, d)
        if fid and fid in ctx.active:
            res.known(fid, c)
            continue
        if os.environ.get("VERIF_COLLECT"):
            res.known("UNLISTED " + d.get("what", "?"), c)
            continue
        if len(res.violations) < 6 and n_reduced < 40:
            n_reduced += 1
            small = reduce_case(c, seeds, ctx)
            if small is not c:
                u2, _ = compare_all([small], ctx, seeds)
                if u2:
                    c, d = small, u2[0][1]
                    fid = classify(c, d)
                    if fid and fid in ctx.active:  # the unstable statement of this script is a listed finding
                        res.known(fid, c)
                        continue
            res.violation("unstable", dict(c, hash_seeds=d.get("hash_seeds")), d)
    return res
