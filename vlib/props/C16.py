"""C16 - identifiers denote the same entity wherever they appear.

Streams
  positions : bounded-exhaustive  name spelling {lower, UPPER, Mixed} x {unquoted, each quote style of the dialect} x 1-3 name parts x
              syntactic position {FROM, target, column reference, qualifier, alias, INSERT column list, source-then-target across two
              statements} x dialect; the printed entity must equal the reference normalisation (unquoted -> lower case, quoted -> verbatim
              minus the quotes, dotted name split at its LAST dot) in every position, and a column written under a spelling must be found
              again (the chain connects) when read under the same spelling
  helper    : Hypothesis over short strings on the quote alphabet for the normalisation function itself
  equality  : Hypothesis over pairs of Schema / Table / Column built from spelled names: equal => equal hash; a dotted table name equals
              the (schema, name) construction
"""
from __future__ import annotations

import itertools
import os

from vlib import observe, rewrite, runner

ID = "C16"
LEVEL = "exploration"
EXHAUSTIVE = False
EXHAUSTIVE_STREAMS = {'positions': 'every case x quoting x parts x position x dialect combination (complete)', 'helper/equality': 'sampled'}
RULE = ("positions: every combination of case pattern x quoting x number of name parts x syntactic position x dialect (7 dialects covering the three quote "
        "styles), enumerated exhaustively; helper / equality: Hypothesis. Non-trivial = the spelling is not plain lower-case unquoted (it has upper-case "
        "letters or quotes or >= 2 parts); distinct = distinct (SQL text, dialect) / distinct drawn value.")
ASSUMPTIONS = [
    "a spelling is used only in dialects whose own sqlfluff parser accepts the text and reads the quoted token as a quoted identifier",
    "reference normalisation follows the property text; 4-part names are outside it (the table constructor's own limit is 3 parts)",
]

DIALECT_QUOTES = {"ansi": ['"'], "postgres": ['"'], "snowflake": ['"'], "mysql": ["`"], "sparksql": ["`"], "bigquery": ["`"], "tsql": ["[", '"']}
CASES = {"lower": lambda s: s.lower(), "upper": lambda s: s.upper(), "mixed": lambda s: s[0].upper() + s[1:3].lower() + s[3:].upper()}


def spell(base, case, quote):
    s = CASES[case](base)
    if quote is None:
        return s, s.lower()
    close = "]" if quote == "[" else quote
    return quote + s + close, s


def spellings(dialect):
    out = []
    for case in CASES:
        out.append((case, None))
        for qch in DIALECT_QUOTES[dialect]:
            out.append((case, qch))
    return out


def table_name(parts, sp):
    """parts: list of base names (db?, schema?, table) all spelled with sp -> (text, printed reference)"""
    texts, refs = zip(*[spell(p, *sp) for p in parts])
    text = ".".join(texts)
    if len(parts) == 1:
        return text, "<default>." + refs[0]
    return text, ".".join(refs[:-1]) + "." + refs[-1]


def positions():
    """(name, builder(sp, nparts) -> (sql, checks)) ; checks: list of (what, expected) evaluated on the runner"""
    def p_from(sp, n):
        t, ref = table_name(["dbx", "scm", "tabx"][3 - n:], sp)
        return f"SELECT c1 FROM {t}", [("source_table", ref)]

    def p_target(sp, n):
        t, ref = table_name(["dbx", "scm", "tabx"][3 - n:], sp)
        return f"INSERT INTO {t} SELECT c1 FROM src1", [("target_table", ref)]

    def p_column(sp, n):
        c, cref = spell("colx", *sp)
        return f"INSERT INTO tgt1 SELECT {c} FROM src1", [("pair", ("<default>.src1." + cref, "<default>.tgt1." + cref))]

    def p_qualifier(sp, n):
        t, ref = table_name(["dbx", "scm", "tabx"][3 - n:], sp)
        return f"INSERT INTO tgt1 SELECT {t}.c1 FROM {t}", [("pair", (ref + ".c1", "<default>.tgt1.c1")), ("source_table", ref)]

    def p_alias(sp, n):
        a, _ = spell("alx", *sp)
        return f"INSERT INTO tgt1 SELECT {a}.c1 FROM src1 {a}", [("pair", ("<default>.src1.c1", "<default>.tgt1.c1"))]

    def p_collist(sp, n):
        c, cref = spell("colx", *sp)
        return f"INSERT INTO tgt1 ({c}) SELECT c9 FROM src1", [("pair", ("<default>.src1.c9", "<default>.tgt1." + cref))]

    def p_chain(sp, n):
        t, ref = table_name(["dbx", "scm", "tabx"][3 - n:], sp)
        c, cref = spell("colx", *sp)
        return (f"INSERT INTO {t} SELECT {c} FROM src1; INSERT INTO fin1 SELECT {c} FROM {t}",
                [("path", ["<default>.src1." + cref, ref + "." + cref, "<default>.fin1." + cref]), ("intermediate_table", ref)])

    def p_cte(sp, n):
        a, _ = spell("ctex", *sp)
        return f"WITH {a} AS (SELECT c1 FROM src1) INSERT INTO tgt1 SELECT c1 FROM {a}", [("pair", ("<default>.src1.c1", "<default>.tgt1.c1")), ("only_source", "<default>.src1")]

    def p_cte_qualifier(sp, n):
        a, _ = spell("ctex", *sp)
        return (f"WITH {a} AS (SELECT c1 FROM src1) INSERT INTO tgt1 SELECT {a}.c1 FROM {a}",
                [("pair", ("<default>.src1.c1", "<default>.tgt1.c1")), ("only_source", "<default>.src1")])

    def p_derived_qualifier(sp, n):
        a, _ = spell("dvx", *sp)
        return (f"INSERT INTO tgt1 SELECT {a}.c1 FROM (SELECT c1 FROM src1) {a} JOIN src2 ON {a}.c1 = src2.c1",
                [("pair", ("<default>.src1.c1", "<default>.tgt1.c1"))])

    def p_table_name_qualifier_chain(sp, n):
        t, ref = table_name(["dbx", "scm", "tabx"][3 - n:], sp)
        return (f"INSERT INTO {t} SELECT c1 FROM src1; INSERT INTO fin1 SELECT {t}.c1 FROM {t}",
                [("path", ["<default>.src1.c1", ref + ".c1", "<default>.fin1.c1"]), ("intermediate_table", ref)])

    def p_star_qualifier(sp, n):
        t, ref = table_name(["dbx", "scm", "tabx"][3 - n:], sp)
        return f"INSERT INTO tgt1 SELECT {t}.* FROM {t}", [("pair", (ref + ".*", "<default>.tgt1.*")), ("source_table", ref)]

    def p_partial_qualifier(sp, n):
        # the qualifier names the table by a proper suffix of its dotted name (schema.table for db.schema.table, table for schema.table)
        t, ref = table_name(["dbx", "scm", "tabx"][3 - n:], sp)
        if n == 1:
            return p_qualifier(sp, n)
        suffix, _ = table_name(["dbx", "scm", "tabx"][3 - n + 1:], sp)
        return f"INSERT INTO tgt1 SELECT {suffix}.c1 FROM {t}", [("pair", (ref + ".c1", "<default>.tgt1.c1")), ("only_source", ref)]

    def p_partial_star_qualifier(sp, n):
        t, ref = table_name(["dbx", "scm", "tabx"][3 - n:], sp)
        if n == 1:
            return p_star_qualifier(sp, n)
        suffix, _ = table_name(["dbx", "scm", "tabx"][3 - n + 1:], sp)
        return f"INSERT INTO tgt1 SELECT {suffix}.* FROM {t}", [("pair", (ref + ".*", "<default>.tgt1.*")), ("only_source", ref)]

    def p_star_chain(sp, n):
        t, ref = table_name(["dbx", "scm", "tabx"][3 - n:], sp)
        return (f"INSERT INTO {t} SELECT * FROM src1; INSERT INTO fin1 SELECT {t}.* FROM {t}",
                [("path", ["<default>.src1.*", ref + ".*", "<default>.fin1.*"]), ("intermediate_table", ref)])

    def p_session_star_chain(sp, n):
        # with a provider in use: the columns a statement gives a table are remembered under the table's name and found again by a later SELECT *
        t, ref = table_name(["dbx", "scm", "tabx"][3 - n:], sp)
        return (f"INSERT INTO {t} SELECT c1, c2 AS c3 FROM src1; INSERT INTO fin1 SELECT * FROM {t}",
                [("metadata", {"zz.other": ["q"]}), ("path", ["<default>.src1.c1", ref + ".c1", "<default>.fin1.c1"]),
                 ("path", ["<default>.src1.c2", ref + ".c3", "<default>.fin1.c3"]), ("intermediate_table", ref)])

    def p_session_positional_chain(sp, n):
        # ... and by a later INSERT without column list (positions named by the remembered columns)
        t, ref = table_name(["dbx", "scm", "tabx"][3 - n:], sp)
        return (f"CREATE TABLE {t} AS SELECT c1, c2 AS c3 FROM src1; INSERT INTO {t} SELECT x1, x2 FROM src2",
                [("metadata", {"zz.other": ["q"]}), ("pair", ("<default>.src2.x1", ref + ".c1")), ("pair", ("<default>.src2.x2", ref + ".c3"))])

    def p_default_schema_chain(sp, n):
        # the configured default schema is an identifier too: a table written as <schema>.tabx and read as tabx under DEFAULT_SCHEMA=<schema, same spelling>
        # is one entity (unquoted spellings only: the setting is a bare name)
        if sp[1] is not None:
            return p_chain(sp, 1)
        scm, scm_ref = spell("scm", *sp)
        return (f"INSERT INTO {scm}.tabx SELECT c1 FROM src1; INSERT INTO fin1 SELECT c1 FROM tabx",
                [("default_schema", scm), ("path", [scm_ref + ".src1.c1", scm_ref + ".tabx.c1", scm_ref + ".fin1.c1"]), ("intermediate_table", scm_ref + ".tabx")])

    extra = [("default_schema_chain", p_default_schema_chain, False), ("session_star_chain", p_session_star_chain, True), ("session_positional_chain", p_session_positional_chain, True),
             ("star_qualifier", p_star_qualifier, True), ("partial_qualifier", p_partial_qualifier, True),
             ("partial_star_qualifier", p_partial_star_qualifier, True), ("star_chain_two_statements", p_star_chain, True),
             ("cte_name_as_qualifier", p_cte_qualifier, False), ("derived_alias_as_qualifier", p_derived_qualifier, False),
             ("table_name_as_qualifier_across_statements", p_table_name_qualifier_chain, True)]
    return extra + [("from", p_from, True), ("target", p_target, True), ("column", p_column, False), ("qualifier", p_qualifier, True), ("alias", p_alias, False),
            ("insert_column_list", p_collist, False), ("chain_two_statements", p_chain, True), ("cte_name", p_cte, False)]


def evaluate(sql, dialect, checks):
    md = next((e for w, e in checks if w == "metadata"), None)
    dflt = next((e for w, e in checks if w == "default_schema"), None)
    try:
        import contextlib

        from sqllineage.config import SQLLineageConfig

        with (SQLLineageConfig(DEFAULT_SCHEMA=dflt) if dflt else contextlib.nullcontext()):
            lr = observe.runner_of(sql, dialect, metadata=md)
            S, T, I = [str(t) for t in lr.source_tables], [str(t) for t in lr.target_tables], [str(t) for t in lr.intermediate_tables]
            paths = [[str(c) for c in p] for p in lr.get_column_lineage()]
    except Exception as e:  # noqa
        return {"what": "raises", "exc": observe.exc_name(e), "msg": str(e)[:200]}
    for what, exp in checks:
        if what == "source_table" and exp not in S:
            return {"what": "source table printed differently", "expected": exp, "reported": S}
        if what == "only_source" and S != [exp]:
            return {"what": "source tables", "expected": [exp], "reported": S}
        if what == "target_table" and exp not in T:
            return {"what": "target table printed differently", "expected": exp, "reported": T}
        if what == "intermediate_table" and exp not in I:
            return {"what": "table written then read is not one entity (not intermediate)", "expected": exp, "reported": {"S": S, "T": T, "I": I}}
        if what == "pair" and list(exp) not in [[p[0], p[-1]] for p in paths]:
            return {"what": "column pair missing", "expected": list(exp), "reported": [[p[0], p[-1]] for p in paths]}
        if what == "path" and exp not in paths:
            return {"what": "chain through the intermediate table does not connect", "expected": exp, "reported": paths}
    return None


_cells_cache = {}


def known_cells():
    """K-quoted-case is identified exactly: the finding lists every failing (statement, dialect) cell of the positions stream together with the
    hash of the discrepancy observed there on the pinned tree, so a *different* wrong answer in a listed cell, or a wrong answer in a cell that
    is not listed, is a violation (the list is committed data, regenerated only by tools/c16_cells.py - never at run time)"""
    if "cells" not in _cells_cache:
        import json

        data = json.load(open(os.path.join(runner.HOME, "known_findings.json")))
        _cells_cache["cells"] = next((e.get("cells", {}) for e in data["findings"] if e["id"] == "K-quoted-case@C16"), {})
    return _cells_cache["cells"]


def cell_key(case):
    return runner.h8(case["sql"] + "|" + case["dialect"])


def classify(case, detail):
    """K-quoted-case: a quoted spelling with upper-case letters is lower-cased where normalisation is applied twice: source columns,
    schema (and database) parts of a table name"""
    sp = case.get("spelling") or [None, None]
    if sp[1] is None or sp[0] == "lower":
        return None
    if known_cells().get(cell_key(case)) == runner.h8(detail):
        return "K-quoted-case@C16"
    return None


def _positions_worker(payload):
    shard, nshards, ctx = payload
    res = runner.Res()
    idx = 0
    for dialect in DIALECT_QUOTES:
        for sp in spellings(dialect):
            for (pname, build, parts_matter) in positions():
                for n in ((1, 2, 3) if parts_matter else (1,)):
                    idx += 1
                    if idx % nshards != shard:
                        continue
                    sql, checks = build(sp, n)
                    if dialect in ("bigquery",) and n == 3:
                        pass
                    if not rewrite.parses(sql, dialect):
                        res.discard("rejected_by_dialect:" + dialect)
                        continue
                    if sp[1] is not None:
                        nq = rewrite.count_quoted_identifiers(sql, dialect)
                        if not nq:
                            res.discard("quoted_token_not_read_as_identifier:" + dialect)
                            continue
                    c = {"sql": sql, "dialect": dialect, "position": pname, "spelling": list(sp), "parts": n, "checks": [[w, e] for w, e in checks]}
                    res.case((sql, dialect), sp != ("lower", None) or n >= 2, labels=["positions", "position:" + pname, "dialect:" + dialect, "case:" + sp[0],
                                                                                  "quote:" + str(sp[1]), f"parts={n}"], sample=c)
                    d = evaluate(sql, dialect, checks)
                    if d is None:
                        continue
                    fid = classify(c, d)
                    if fid and fid in ctx.active:
                        res.known(fid, c)
                    elif os.environ.get("VERIF_COLLECT"):
                        res.known(f"UNLISTED | {pname} | {sp} | parts={n} | {dialect} | {d['what']}", c)
                    elif len(res.violations) < 5:
                        res.violation("positions", c, d)
    return res


# ------------------------------------------------------------------------------------------ helper + equality
ALPHABET = "aB_1\"`'[]. "


def ref_escape(name):
    """the property's normalisation for WELL-FORMED spellings only; None = spelling outside the property's domain"""
    quotes = set("\"`'")
    if not name:
        return None
    if len(name) >= 2 and name[0] == name[-1] and name[0] in "\"`" and not (set(name[1:-1]) & (quotes | set("[]"))):
        return name[1:-1]
    if len(name) >= 2 and name[0] == "[" and name[-1] == "]" and not (set(name[1:-1]) & (quotes | set("[]"))):
        return name[1:-1]
    if not (set(name) & (quotes | set("[]"))):
        return name.lower()
    return None


def _helper_worker(payload):
    shard, n, ctx = payload
    from hypothesis import strategies as st

    res = runner.Res()

    def body(s, res_):
        from sqllineage.utils.helpers import escape_identifier_name

        exp = ref_escape(s)
        if exp is None:
            res_.discard("helper:spelling_outside_domain")
            try:
                escape_identifier_name(s)  # must still not crash on odd spellings
            except Exception as e:  # noqa
                return {"kind": "helper", "case": {"helper_input": s}, "detail": {"what": "normalisation raises", "exc": repr(e)}}
            return None
        res_.case(("helper", s), any(ch in s for ch in "\"`[B"), labels=["helper"], sample={"helper_input": s})
        got = escape_identifier_name(s)
        if got != exp:
            return {"kind": "helper", "case": {"helper_input": s}, "detail": {"what": "normalisation differs", "expected": exp, "got": got}}
        return None

    runner.hyp_run(st.text(alphabet=ALPHABET, min_size=1, max_size=6), body, res, seed=runner.derive_seed(ctx.seed, "C16helper", shard), max_examples=n, ctx=ctx)
    return res


def check_equality(parts):
    from sqllineage.core.models import Column, Schema, Table

    a, b, sa, sb, ca, cb = [tuple(p) for p in parts]

    def mk(p):
        return spell(*p)[0]

    try:
        s1, s2 = Schema(mk(sa)), Schema(mk(sb))
        t1, t2 = Table(mk(a), s1), Table(mk(b), s2)
        t3 = Table(mk(sa) + "." + mk(a))
        c1, c2 = Column(mk(ca)), Column(mk(cb), source_columns=[("x", None), ("y", "q")])
        c1.parent, c2.parent = t1, t2
        objs = [(s1, s2), (t1, t2), (c1, c2), (t1, t3)]
        # a dotted name splits at its LAST dot: db.schema.table -> qualifier db.schema, table
        t4 = Table("dbx." + mk(sa) + "." + mk(a))
    except Exception as e:  # noqa
        return {"what": "construction raises", "exc": repr(e)}
    if t4.raw_name != spell(*a)[1] and spell(*sa)[1] == str(s1):
        return {"what": "dotted name not split at its last dot", "table": str(t4), "raw_name": t4.raw_name}
    for x, y in objs:
        if x == y and hash(x) != hash(y):
            return {"what": "equal entities hash differently", "a": str(x), "b": str(y)}
        if (str(x) == str(y)) != (x == y) and not isinstance(x, Column):
            return {"what": "equality does not follow the printed qualified name", "a": str(x), "b": str(y)}
    if str(t1) != str(t3) and spell(*sa)[1] == str(s1):
        return {"what": "dotted name and (schema, name) construction differ", "a": str(t1), "b": str(t3)}
    return None


def _equality_worker(payload):
    shard, n, ctx = payload
    from hypothesis import strategies as st

    res = runner.Res()
    part = st.tuples(st.sampled_from(["tab", "scm", "x"]), st.sampled_from(list(CASES)), st.sampled_from([None, '"', "`", "["]))

    def mk(p):
        return spell(*p)[0]

    def body(case, res_):
        parts = [list(p) for p in case]
        res_.case(("eq", str(case)), True, labels=["equality"], sample={"equality_case": parts})
        d = check_equality(parts)
        return None if d is None else {"kind": "equality", "case": {"equality_case": parts}, "detail": d}

    runner.hyp_run(st.tuples(part, part, part, part, part, part), body, res, seed=runner.derive_seed(ctx.seed, "C16eq", shard), max_examples=n, ctx=ctx)
    return res


def replay(case):
    if "helper_input" in case:
        from sqllineage.utils.helpers import escape_identifier_name

        exp = ref_escape(case["helper_input"])
        got = escape_identifier_name(case["helper_input"])
        return None if exp is None or got == exp else {"kind": "helper", "case": case, "detail": {"expected": exp, "got": got}}
    if "equality_case" in case:
        d = check_equality(case["equality_case"])
        return None if d is None else {"kind": "equality", "case": case, "detail": d}
    d = evaluate(case["sql"], case["dialect"], [(w, tuple(e) if w == "pair" else e) for w, e in case["checks"]])
    return None if d is None else {"kind": "replay", "case": case, "detail": d}


def run(ctx):
    nshards = runner.NCPU
    res = runner.merge_all(runner.pmap(_positions_worker, [(i, nshards, ctx) for i in range(nshards)]))
    n = ctx.n(8000, 200000)
    res.merge(runner.merge_all(runner.pmap(_helper_worker, [(i, n // 4, ctx) for i in range(4)])))
    n2 = ctx.n(4000, 100000)
    res.merge(runner.merge_all(runner.pmap(_equality_worker, [(i, n2 // 4, ctx) for i in range(4)])))
    return res
