"""C17 - the visualisation server only discloses files under its roots.

Bounded-exhaustive: every path of <= N segments (quick 4, thorough 5) over the segment alphabet, with an optional
final file name, in absolute (root-anchored, base-anchored) and relative form, sent to every route of the WSGI
application `sqllineage.drawing.app(environ, start_response)` against a scratch directory tree whose files carry
unique marker tokens.  Oracle: a response *discloses* a file iff its body contains that file's marker token and
discloses a directory iff it is a /directory listing of it; every disclosed file / listed directory must resolve
(os.path.realpath) inside the route's root.  Refusals are never violations.
"""
from __future__ import annotations

import io
import itertools
import json
import os
import shutil
import tempfile

from vlib import runner

ID = "C17"
LEVEL = "exploration"
EXHAUSTIVE = True
EXHAUSTIVE_STREAMS = {'all': 'every path of <= N segments x route x root setting (complete)'}
RULE = ("every path built from <=N segments (N=4 quick, 5 thorough; plus <= 2 segments behind the home spellings ~, ~/., ./~, ~root, $HOME, %7E with HOME outside the roots) over {.., ., child, nested, sibling-with-common-prefix, outside, "
        "file-as-directory, empty} + optional final file name, anchored at {root (absolute), tree base (absolute), cwd-relative}, x "
        "route {GET static, POST /script f, /directory f, /directory d, /lineage f} x root setting {absolute, relative, '.' with the process inside it}; "
        "enumerated exhaustively. Non-trivial = path contains '..' or a sibling/outside component or is anchored outside the root; "
        "distinct = distinct (route, root setting, path) - distinct by construction of the enumeration.")
ASSUMPTIONS = [
    "the application is driven in-process through its WSGI callable; STATIC_FOLDER and app.root_path are pointed at a scratch tree through the module's public attributes",
    "no symbolic links in the tree (the property speaks of '.' and '..' resolution only)",
    "disclosure is detected by unique marker tokens placed in every file as table names and string literals (so /lineage echoes them) and by parsing /directory listings",
]

SEGS = ["..", ".", "child", "nested", "root_sib", "outside", "in.sql", ""]
FINALS = [None, "in.sql", "c.sql", "n.sql", "s.sql", "o.sql", "bad.sql", "top.sql"]
GSEGS = ["..", ".", "asset", "static_sib", "index.html", "", "%2e%2e"]
GFINALS = [None, "a.js", "x.js", "top.sql", "index.html"]


def _sql(tok):
    return f"insert into tgt_{tok} select '{tok}' as c, col from src_{tok};\n"


def build_tree():
    base = tempfile.mkdtemp(prefix="verif_c17_", dir="/tmp")
    base = os.path.realpath(base)
    files = {
        "root/in.sql": "MKAAin", "root/child/c.sql": "MKBBchild", "root/child/nested/n.sql": "MKCCnested",
        "root_sib/s.sql": "MKDDsib", "outside/o.sql": "MKEEout", "top.sql": "MKFFtop",
        "static/index.html": "MKGGindex", "static/asset/a.js": "MKHHasset", "static_sib/x.js": "MKIIssib",
        "root/child/in.sql": "MKJJchildin", "outside/in.sql": "MKKKoutin", "root_sib/in.sql": "MKLLsibin",
        "outside/child/c.sql": "MKMMoutchild", "static/asset/index.html": "MKNNassetindex",
    }
    markers = {}
    for rel, tok in files.items():
        p = os.path.join(base, rel)
        os.makedirs(os.path.dirname(p), exist_ok=True)
        with open(p, "w") as f:
            f.write(_sql(tok) if rel.endswith(".sql") else f"<!-- {tok} --> var x = '{tok}';\n")
        markers[tok] = p
    # an unparsable file outside the root: its text would leak through a 400 message
    p = os.path.join(base, "outside", "bad.sql")
    open(p, "w").write("selec MKOObad from where;\n")
    markers["MKOObad"] = p
    p = os.path.join(base, "root", "bad.sql")
    open(p, "w").write("selec MKPProotbad from where;\n")
    markers["MKPProotbad"] = p
    return base, markers


def inside(path, root):
    path, root = os.path.realpath(path), os.path.realpath(root)
    return path == root or path.startswith(root.rstrip("/") + "/")


class Client:
    def __init__(self, base, root_setting):
        import importlib

        import sqllineage.drawing as d
        from pathlib import Path

        # a fresh application object per client: the module-level singleton may have served requests earlier in this process or in the process this
        # worker was forked from (the committed regression replays run in the parent) - whatever it cached there must not shape this client's answers
        d = importlib.reload(d)
        self.d = d
        self.base = base
        self.root_abs = os.path.join(base, "root")
        self.static_abs = os.path.join(base, "static")
        d.STATIC_FOLDER = self.static_abs
        os.environ["HOME"] = os.path.join(base, "outside")  # '~' names a directory outside every root
        if root_setting == "dot":
            # the root is '.', the process sits in it (what `SQLLINEAGE_DIRECTORY=.` or `sqllineage -g -f query.sql` give)
            os.chdir(self.root_abs)
            d.app.root_path = Path(".")
        else:
            os.chdir(base)
            d.app.root_path = Path(self.root_abs) if root_setting == "abs" else Path("root")
        # the configured SQL directory IS the root (a request that names no path lists the configured directory, by design)
        os.environ["SQLLINEAGE_DIRECTORY"] = str(d.app.root_path)

    def request(self, method, path, body=None):
        st = {}

        def sr(status, headers):
            st["s"] = status

        env = {"REQUEST_METHOD": method, "PATH_INFO": path}
        if body is not None:
            b = json.dumps(body)
            env["CONTENT_LENGTH"] = len(b)
            env["wsgi.input"] = io.StringIO(b)
        try:
            out = self.d.app(env, sr)
            return st.get("s", "?"), b"".join(out)
        except Exception as e:  # an escaping exception discloses nothing through the response
            return "EXC " + type(e).__name__, b""


def judge(client, markers, route, path):
    """returns None | detail"""
    if route == "GET":
        status, body = client.request("GET", path)
        root = client.static_abs
    elif route == "script":
        status, body = client.request("POST", "/script", {"f": path})
        root = client.root_abs
    elif route == "dir_f":
        status, body = client.request("POST", "/directory", {"f": path})
        root = client.root_abs
    elif route == "dir_d":
        status, body = client.request("POST", "/directory", {"d": path})
        root = client.root_abs
    elif route == "lineage":
        status, body = client.request("POST", "/lineage", {"f": path})
        root = client.root_abs
    else:
        raise ValueError(route)
    text = body.decode("utf-8", "replace")
    leaks = []
    for tok, fpath in markers.items():
        if tok in text and not inside(fpath, root):
            leaks.append({"marker": tok, "file": os.path.relpath(fpath, client.base)})
    if route in ("dir_f", "dir_d") and status.startswith("200"):
        try:
            data = json.loads(text)
            listed = data.get("id")
            if listed is not None and not inside(os.path.abspath(listed), root):  # a relative id is relative to the server's working directory
                leaks.append({"listed_directory": os.path.relpath(os.path.realpath(listed), client.base),
                              "entries": [c.get("name") for c in data.get("children", [])][:6]})
        except ValueError:
            pass
    if leaks:
        return {"status": status, "disclosed_outside_root": leaks[:4], "root": os.path.relpath(root, client.base)}
    return None


def nontrivial(path):
    return ".." in path or "root_sib" in path or "outside" in path or "static_sib" in path or "top.sql" in path


def post_paths(nseg, base):
    """yield (anchor, path) for all segment sequences of length <= nseg"""
    root = os.path.join(base, "root")
    for n in range(0, nseg + 1):
        for segs in itertools.product(SEGS, repeat=n):
            for fin in FINALS:
                parts = list(segs) + ([fin] if fin else [])
                rel = "/".join(parts)
                yield "root", (root + "/" + rel) if parts else root
                yield "base", (base + "/" + rel) if parts else base
                if parts:
                    yield "rel", "root/" + rel
                    yield "rel0", rel
    yield "abs", "/etc/hostname"
    yield "abs", "/"
    # spellings that a shell-like expansion would take out of the root ('~' is an ordinary directory name for the path check)
    for head in ("~", "~/.", "./~", "~root", "~/..", "$HOME", "${HOME}", "%7E"):
        for n in range(0, 3):
            for segs in itertools.product(SEGS, repeat=n):
                for fin in FINALS:
                    parts = [head] + list(segs) + ([fin] if fin else [])
                    yield "home", "/".join(parts)


def get_paths(nseg):
    for n in range(0, nseg + 1):
        for segs in itertools.product(GSEGS, repeat=n):
            for fin in GFINALS:
                parts = list(segs) + ([fin] if fin else [])
                yield "/" + "/".join(parts)
                if parts:
                    yield "/".join(parts)
                    yield "//" + "/".join(parts)


def get_abs_paths(base):
    """GET paths that spell an ABSOLUTE file-system path behind one or more leading slashes (a join that keeps a leading slash discards the static folder)"""
    rels = ["top.sql", "outside/o.sql", "static_sib/x.js", "root/in.sql", "static/index.html", "static/asset/a.js", "outside", ""]
    for r in rels:
        ab = base + ("/" + r if r else "")
        for pre in ("", "/", "//", "/./", "/asset/..", "/asset//"):
            yield pre + ab
        yield "/" + ab.lstrip("/")
        yield "/%2F" + ab.lstrip("/")
    for ab in ("/etc/hostname", "//etc/hostname", "///etc/hostname", "/etc/", "//etc"):
        yield ab


ROUTES = ["script", "dir_f", "dir_d", "lineage"]


def classify(case, detail):
    return None


def _worker(payload):
    shard, nshards, nseg, root_setting, ctx = payload
    res = runner.Res()
    base, markers = build_tree()
    cwd = os.getcwd()
    nt = 0
    try:
        client = Client(base, root_setting)
        idx = 0
        for anchor, path in post_paths(nseg, base):
            idx += 1
            if idx % nshards != shard:
                continue
            if (idx & 255) == 0 and ctx.out_of_time():
                res.budget_exhausted = True
                break
            for route in ROUTES:
                res.evals += 1
                isnt = nontrivial(path) or anchor in ("base", "abs", "rel0", "home")
                nt += isnt
                d = judge(client, markers, route, path)
                if isnt and (nt in (1, 50) or nt % 20011 == 0):
                    res.samples.append((runner.h8((route, path)), {"route": route, "root_setting": root_setting,
                                                                   "path": path.replace(base, "<BASE>")}))
                if d is not None:
                    case = {"route": route, "root_setting": root_setting, "path": path.replace(base, "<BASE>")}
                    fid = classify(case, d)
                    if fid and fid in ctx.active:
                        res.known(fid, case)
                    elif len(res.violations) < 40:
                        res.violation("post", case, d)
        res.labels[f"post_requests({root_setting})"] += res.evals
        n0 = res.evals
        if root_setting == "abs":
            for path in itertools.chain(get_paths(nseg), get_abs_paths(base)):
                idx += 1
                if idx % nshards != shard:
                    continue
                res.evals += 1
                isnt = nontrivial(path)
                nt += isnt
                d = judge(client, markers, "GET", path)
                if d is not None and len(res.violations) < 40:
                    res.violation("get", {"route": "GET", "root_setting": root_setting, "path": path.replace(base, "<BASE>")}, d)
            res.labels["get_requests"] += res.evals - n0
    finally:
        os.chdir(cwd)
        shutil.rmtree(base, ignore_errors=True)
    res.extra["nt_extra"] = nt
    return res


HISTORY_ROOTS = ["root", "root/child", "outside", "root_sib"]


def _history_worker(payload):
    """root histories: the application object is long-lived and its root can be re-pointed (draw_lineage_graph does it on every call).  For every
    ordered pair (R1, R2) of four directories: serve warm-up requests on every POST route under R1, re-point the root to R2, then judge every path of
    <= 2 segments (all anchors) on every POST route against R2 - whatever was learned under R1 must not widen what R2 discloses."""
    pair_idx, ctx = payload
    from pathlib import Path

    res = runner.Res()
    pairs = [(a, b) for a in HISTORY_ROOTS for b in HISTORY_ROOTS if a != b]
    r1, r2 = pairs[pair_idx]
    base, markers = build_tree()
    cwd = os.getcwd()
    try:
        client = Client(base, "abs")

        def point(rel):
            client.root_abs = os.path.join(base, rel)
            client.d.app.root_path = Path(client.root_abs)
            os.environ["SQLLINEAGE_DIRECTORY"] = client.root_abs

        point(r1)
        for route in ROUTES:  # warm-up: one request inside R1 and one refused, per route
            for path in (os.path.join(base, r1, "in.sql") if route != "dir_d" else os.path.join(base, r1), os.path.join(base, "top.sql")):
                judge(client, markers, route, path)
        point(r2)
        for anchor, path in post_paths(2, base):
            for route in ROUTES:
                res.evals += 1
                d = judge(client, markers, route, path)
                if d is not None and len(res.violations) < 10:
                    res.violation("post_after_root_change", {"route": route, "root_history": [r1, r2], "path": path.replace(base, "<BASE>")}, d)
        res.labels["post_requests(root history)"] += res.evals
        res.extra["nt_extra"] = res.evals
    finally:
        os.chdir(cwd)
        shutil.rmtree(base, ignore_errors=True)
    return res


def replay(case):
    if case.get("root_history"):
        return _replay_history(case)
    base, markers = build_tree()
    cwd = os.getcwd()
    try:
        client = Client(base, case.get("root_setting", "abs"))
        d = judge(client, markers, case["route"], case["path"].replace("<BASE>", base))
        return None if d is None else {"kind": "replay", "case": case, "detail": d}
    finally:
        os.chdir(cwd)
        shutil.rmtree(base, ignore_errors=True)


def _replay_history(case):
    from pathlib import Path

    base, markers = build_tree()
    cwd = os.getcwd()
    try:
        client = Client(base, "abs")
        r1, r2 = case["root_history"]
        for k, rel in enumerate((r1, r2)):
            client.root_abs = os.path.join(base, rel)
            client.d.app.root_path = Path(client.root_abs)
            os.environ["SQLLINEAGE_DIRECTORY"] = client.root_abs
            if k == 0:
                for route in ROUTES:
                    for path in (os.path.join(base, r1, "in.sql") if route != "dir_d" else os.path.join(base, r1), os.path.join(base, "top.sql")):
                        judge(client, markers, route, path)
        d = judge(client, markers, case["route"], case["path"].replace("<BASE>", base))
        return None if d is None else {"kind": "replay", "case": case, "detail": d}
    finally:
        os.chdir(cwd)
        shutil.rmtree(base, ignore_errors=True)


def _dedup(violations):
    """keep the shortest path per (route, root setting, leaked thing)"""
    best = {}
    for v in violations:
        k = (v["case"]["route"], json.dumps(v["detail"]["disclosed_outside_root"][0], sort_keys=True))
        if k not in best or len(v["case"]["path"]) < len(best[k]["case"]["path"]):
            best[k] = v
    return sorted(best.values(), key=lambda v: len(v["case"]["path"]))


def run(ctx):
    nseg = 4 if ctx.quick else 5
    n = runner.NCPU
    payloads = [(i, n, nseg, rs, ctx) for rs in ("abs", "rel", "dot") for i in range(n)]
    res = runner.merge_all(runner.pmap(_worker, payloads))
    res.merge(runner.merge_all(runner.pmap(_history_worker, [(i, ctx) for i in range(12)], fresh=True)))
    res.violations = _dedup(res.violations)
    res.extra["max_segments"] = nseg
    return res
