"""C03 - script summary roles follow from per-statement reads and writes.

Streams
  abstract : every history of length 3 (quick) / 4 (thorough) over 40 abstract statement kinds on the universe
             {a,b,c}, built as statement holders through add_read/add_write/add_drop/add_rename and folded
             with SQLLineageHolder.of  (bounded-exhaustive; partitioned by index over 16 processes)
  sql      : Hypothesis-random scripts of 2-8 statements over 5 tables rendered to real SQL (ansi / mysql /
             sparksql / postgres) and run through LineageRunner; summaries and table-level export edges observed
Oracle     : the set-based reference model `Model` below (shares no code with sqllineage).
"""
from __future__ import annotations

import itertools

from vlib import runner

ID = "C03"
LEVEL = "exploration"
EXHAUSTIVE = False
EXHAUSTIVE_STREAMS = {'abstract': 'all histories of length <= L over the 40 statement kinds (complete)', 'abstract_multi_pair_rename': 'every (rw, rw) prefix x every ordered 2-pair RENAME over 3 tables (complete)', 'sql': 'sampled'}
RULE = ("abstract stream: ALL histories of length L (L=3 quick, L=4 thorough; plus all of length 1..L-1) over 40 statement "
        "kinds = 31 read-set x at-most-one-write statements + 3 DROP + 6 RENAME on tables {a,b,c}; multi-pair stream: two rw statements "
        "then every ordered pair of RENAME pairs in one statement; sql stream: Hypothesis "
        "scripts of 2-8 statements over 5 tables rendered to SQL. Non-trivial = at least two statements of the history "
        "mention a common table; distinct = distinct history (abstract: distinct by construction of the enumeration; "
        "sql: distinct rendered script text).")
ASSUMPTIONS = [
    "abstract histories are folded through the public SQLLineageHolder.of(provider, *StatementLineageHolder) with an empty DummyMetaDataProvider",
    "exact equality with the model is demanded when no RENAME occurs, or every RENAME x->y is preceded only by statements that touch x or y while reading and writing other tables (the property's claim domain); otherwise only: no exception, tables never named in a RENAME keep the model's classification, x is gone after RENAME x->y",
    "sql stream: a table whose DROP found it removable by the model is compared weakly from then on (the property states 'only if' for DROP and column nodes legitimately keep a table alive)",
]

U = ["a", "b", "c"]


def _subsets(s):
    for k in range(len(s) + 1):
        for c in itertools.combinations(s, k):
            yield tuple(c)


def kinds(universe):
    out = []
    for R in _subsets(universe):
        for w in [None] + list(universe):
            if not R and w is None:
                continue
            out.append(("rw", R, w))
    for t in universe:
        out.append(("drop", t))
    for x in universe:
        for y in universe:
            if x != y:
                out.append(("ren", x, y))
    return out


KINDS = kinds(U)
assert len(KINDS) == 40


# ------------------------------------------------------------------------------------------ model
def mentions(st, t):
    if st[0] == "rw":
        return t in st[1] or st[2] == t
    if st[0] == "drop":
        return st[1] == t
    if st[0] == "ren":
        return t in st[1:]
    if st[0] == "renm":
        return any(t in p for p in st[1])
    return False


def _edge_stmt_for(st, t):
    """st both reads and writes, and t's part in it is with OTHER tables"""
    if st[0] != "rw":
        return False
    _, R, w = st
    if not R or not w:
        return False
    if t in R and w == t:
        return False
    return True


def rename_pairs(st):
    if st[0] == "ren":
        return [(st[1], st[2])]
    if st[0] == "renm":
        return [tuple(p) for p in st[1]]
    return []


def in_claim_domain(hist):
    for k, st in enumerate(hist):
        for x, y in rename_pairs(st):
            for t in (x, y):
                prior = [s for s in hist[:k] if mentions(s, t)]
                if not all(_edge_stmt_for(s, t) for s in prior):
                    return False
    return True


def model(hist):
    """returns (S, T, I, E, soft) - soft = tables that a DROP found removable (see ASSUMPTIONS)"""
    N, E, SO, TO, soft = set(), set(), set(), set(), set()
    ever = set()  # tables something was ever read from or wired to (a RENAME hands the history of x on to y): DROP never removes these
    for st in hist:
        if st[0] == "rw":
            _, R, w = st
            N |= set(R)
            ever |= set(R)
            if R and w:
                ever.add(w)
            if w:
                N.add(w)
            if R and not w:
                SO |= set(R)
            elif w and not R:
                TO.add(w)
            else:
                E |= {(r, w) for r in R}
        elif st[0] == "drop":
            t = st[1]
            if t in N and t not in ever:
                N.discard(t)
                TO.discard(t)
                soft.add(t)
        else:
            for x, y in rename_pairs(st):
                sub = lambda t: y if t == x else t  # noqa: E731
                E = {(sub(a), sub(b)) for a, b in E}
                E.discard((y, y))
                SO = {sub(t) for t in SO}
                TO = {sub(t) for t in TO}
                N = {sub(t) for t in N} | {y}
                ever = {sub(t) for t in ever}
                if not any(y in e for e in E) and y not in SO:
                    N.discard(y)
                    TO.discard(y)
    ind = {t: sum(1 for e in E if e[1] == t) for t in N}
    outd = {t: sum(1 for e in E if e[0] == t) for t in N}
    sl = {a for a, b in E if a == b}
    S = {t for t in N if ind[t] == 0 and outd[t] > 0} | sl | (SO & N)
    T = {t for t in N if outd[t] == 0 and ind[t] > 0} | sl | (TO & N)
    inter = {t for t in N if ind[t] > 0 and outd[t] > 0} - sl
    return S, T, inter, E, soft


def judge(hist, real, strict_drop=True):
    """real = (S, T, I, E) as sets of bare names / name pairs, or ('EXC', type, msg). returns None | detail"""
    if real[0] == "EXC":
        return {"what": "exception while folding", "exc": real[1:], "in_claim_domain": in_claim_domain(hist)}
    mS, mT, mI, mE, soft = model(hist)
    rS, rT, rI, rE = real
    weak = set()
    if not in_claim_domain(hist):
        weak |= {t for st in hist for p in rename_pairs(st) for t in p}
    if not strict_drop:
        weak |= soft
    f = lambda s: set(s) - weak  # noqa: E731
    diffs = {}
    for name, m, r in (("source", mS, rS), ("target", mT, rT), ("intermediate", mI, rI)):
        if f(m) != f(r):
            diffs[name] = {"model": sorted(f(m)), "real": sorted(f(r))}
    fe = lambda E: {e for e in E if e[0] not in weak and e[1] not in weak}  # noqa: E731
    if fe(mE) != fe(rE):
        diffs["edges"] = {"model": sorted(fe(mE)), "real": sorted(fe(rE))}
    # x is gone after RENAME x->y unless a later statement mentions x again
    for k, st in enumerate(hist):
        for x, y in rename_pairs(st):
            later = list(hist[k + 1:])
            if st[0] == "renm":
                pairs = rename_pairs(st)
                j = pairs.index((x, y))
                later.append(("renm", tuple(pairs[j + 1:])))  # a later pair of the same statement may create x again
            if not any(mentions(s, x) for s in later) and x in (set(rS) | set(rT) | set(rI)):
                diffs.setdefault("renamed_table_still_present", []).append(x)
    if diffs:
        diffs["weakly_compared"] = sorted(weak)
        return diffs
    return None


# ------------------------------------------------------------------------------------------ abstract
def real_abstract(hist):
    from sqllineage.core.holders import SQLLineageHolder, StatementLineageHolder
    from sqllineage.core.metadata.dummy import DummyMetaDataProvider
    from sqllineage.core.models import Table

    try:
        holders = []
        for st in hist:
            h = StatementLineageHolder()
            if st[0] == "rw":
                for r in st[1]:
                    h.add_read(Table(r))
                if st[2]:
                    h.add_write(Table(st[2]))
            elif st[0] == "drop":
                h.add_drop(Table(st[1]))
            else:
                for x, y in rename_pairs(st):
                    h.add_rename(Table(x), Table(y))
            holders.append(h)
        H = SQLLineageHolder.of(DummyMetaDataProvider(), *holders)
        f = lambda s: {t.raw_name for t in s}  # noqa: E731
        E = {(u.raw_name, v.raw_name) for u, v in H.table_lineage_graph.edges}
        return (f(H.source_tables), f(H.target_tables), f(H.intermediate_tables), E)
    except Exception as e:  # noqa
        return ("EXC", type(e).__name__, str(e)[:200])


def nontrivial(hist):
    for i in range(len(hist)):
        for j in range(i + 1, len(hist)):
            for t in ("a", "b", "c", "d", "e"):
                if mentions(hist[i], t) and mentions(hist[j], t):
                    return True
    return False


def decode(idx, L):
    h = []
    for _ in range(L):
        idx, d = divmod(idx, 40)
        h.append(KINDS[d])
    return tuple(reversed(h))


RW_KINDS = [k for k in KINDS if k[0] == "rw"]
REN_PAIRS = [(x, y) for x in U for y in U if x != y]


def multi_rename_histories(thorough):
    """every (rw, rw) prefix x every ordered 2-pair RENAME over {a,b,c} (36, chained and repeated names included: the pairs apply
    left to right) [x every trailing rw statement and every 3-pair RENAME of pairwise different pairs after one rw statement in thorough]"""
    for p1 in RW_KINDS:
        for p2 in RW_KINDS:
            for r1 in REN_PAIRS:
                for r2 in REN_PAIRS:
                    yield (p1, p2, ("renm", (r1, r2)))
    if thorough:
        for p1 in RW_KINDS:
            for r1 in REN_PAIRS:
                for r2 in REN_PAIRS:
                    for r3 in REN_PAIRS:
                        if len({r1, r2, r3}) == 3:  # a statement that repeats a pair is not valid SQL and the pair set cannot even represent it
                            yield (p1, ("renm", (r1, r2, r3)))
                    for p3 in RW_KINDS:
                        yield (p1, ("renm", (r1, r2)), p3)


def _multi_worker(payload):
    shard, nshards, ctx = payload
    res = runner.Res()
    nt = 0
    for idx, hist in enumerate(multi_rename_histories(not ctx.quick)):
        if idx % nshards != shard:
            continue
        if (idx & 1023) == shard and ctx.out_of_time():
            res.budget_exhausted = True
            break
        res.evals += 1
        if nontrivial(hist):
            nt += 1
            if idx % 4099 == 0:
                res.samples.append((runner.h8(hist), {"stream": "abstract", "history": hist}))
        d = judge(hist, real_abstract(hist))
        if d is not None and len(res.violations) < 3:
            res.violation("abstract", {"stream": "abstract", "history": hist}, d)
    res.extra["nt_extra"] = nt
    res.labels["abstract_multi_pair_rename"] += res.evals
    return res


def _abstract_worker(payload):
    L, lo, hi, ctx = payload
    res = runner.Res()
    nt = 0
    dom = 0
    for idx in range(lo, hi):
        if (idx & 1023) == 0 and ctx.out_of_time():
            res.budget_exhausted = True
            break
        hist = decode(idx, L)
        res.evals += 1
        if in_claim_domain(hist):
            dom += 1
        if nontrivial(hist):
            nt += 1
            if idx % 9973 == 0:
                res.samples.append((runner.h8(hist), {"stream": "abstract", "history": hist}))
        d = judge(hist, real_abstract(hist))
        if d is not None and len(res.violations) < 3:
            res.violation("abstract", {"stream": "abstract", "history": hist}, d)
    res.extra["nt_extra"] = nt
    res.extra[f"abstract_len{L}_in_claim_domain"] = dom
    res.labels[f"abstract_len{L}"] += res.evals
    return res


# ------------------------------------------------------------------------------------------ real SQL
U5 = ["a", "b", "c", "d", "e"]
DIALECTS = ["ansi", "mysql", "sparksql", "postgres", "non-validating"]


def render_stmt(st, form, dialect):
    if st[0] == "rw":
        _, R, w = st
        if R:
            if form % 3 == 0:
                q = "SELECT * FROM " + ", ".join(R)
            elif form % 3 == 1:
                q = "SELECT * FROM " + R[0] + "".join(f" JOIN {r} ON {R[0]}.k = {r}.k" for r in R[1:])
            else:
                q = " UNION ALL ".join(f"SELECT k FROM {r}" for r in R)
            if not w:
                return q
            return (f"INSERT INTO {w} {q}" if form % 2 == 0 else f"CREATE TABLE {w} AS {q}")
        return f"INSERT INTO {w} VALUES (1, 2)" if form % 2 == 0 else f"CREATE TABLE {w} (k int)"
    if st[0] == "drop":
        return f"DROP TABLE {'IF EXISTS ' if form % 2 else ''}{st[1]}"
    if st[0] == "ren":
        if dialect == "mysql" and form % 2:
            return f"RENAME TABLE {st[1]} TO {st[2]}"
        return f"ALTER TABLE {st[1]} RENAME TO {st[2]}"
    if st[0] == "renm":
        return "RENAME TABLE " + ", ".join(f"{x} TO {y}" for x, y in st[1])
    raise ValueError(st)


def real_sql(sql, dialect):
    from sqllineage.runner import LineageRunner

    try:
        lr = LineageRunner(sql, dialect=dialect)
        f = lambda s: {t.raw_name for t in s}  # noqa: E731
        S, T, I = f(lr.source_tables), f(lr.target_tables), f(lr.intermediate_tables)
        E = set()
        for el in lr.to_cytoscape():
            d = el["data"]
            if "source" in d:
                E.add((d["source"].split(".")[-1], d["target"].split(".")[-1]))
        return (S, T, I, E)
    except Exception as e:  # noqa
        return ("EXC", type(e).__name__, str(e)[:300])


def sql_strategy():
    from hypothesis import strategies as st

    tbl = st.sampled_from(U5)
    rw = st.tuples(st.just("rw"), st.lists(tbl, unique=True, max_size=3).map(lambda x: tuple(sorted(x))),
                   st.one_of(st.none(), tbl)).filter(lambda s: s[1] or s[2])
    drop = st.tuples(st.just("drop"), tbl)
    ren = st.tuples(st.just("ren"), tbl, tbl).filter(lambda s: s[1] != s[2])
    # multi-pair RENAME TABLE: valid statements only (no table renamed twice, no name created twice).
    pairs = st.lists(st.tuples(tbl, tbl).filter(lambda p: p[0] != p[1]), min_size=2, max_size=3,
                     unique_by=(lambda p: p[0], lambda p: p[1]))
    chained = lambda ps: len({t for p in ps for t in p}) != 2 * len(ps)  # noqa: E731
    renm_disjoint = pairs.filter(lambda ps: not chained(ps)).map(lambda ps: ("renm", tuple(ps)))
    # chained pairs (a name occurs twice: 'a TO tmp, b TO a, tmp TO b' is the mysql idiom for a swap) apply left to right
    renm_chain = pairs.filter(chained).map(lambda ps: ("renm", tuple(ps)))
    stmt = st.integers(0, 39).flatmap(
        lambda k: rw if k < 26 else drop if k < 30 else ren if k < 34 else renm_disjoint if k < 37 else renm_chain)
    return st.tuples(st.lists(st.tuples(stmt, st.integers(0, 5)), min_size=2, max_size=8), st.sampled_from(DIALECTS))


def build_sql_case(case):
    stmts, dialect = case
    hist = tuple(s for s, _ in stmts)
    if any(s[0] == "renm" for s in hist):
        dialect = "mysql"
    if dialect == "non-validating":
        # legacy analyzer: keep to the statement forms its handlers document (no multi-pair rename)
        pass
    sql = ";\n".join(render_stmt(s, f, dialect) for s, f in stmts) + ";"
    return hist, dialect, sql


def classify(case, detail):
    """no open finding (K-rename-multi was repaired: see known_findings.json 'fixed')"""
    return None


def _norm_hist(history):
    out = []
    for s in history:
        s = list(s)
        if s[0] == "rw":
            out.append(("rw", tuple(s[1]), s[2]))
        elif s[0] == "renm":
            out.append(("renm", tuple(tuple(p) for p in s[1])))
        else:
            out.append(tuple(s))
    return tuple(out)


def _sql_body(ctx):
    def body(case, res):
        hist, dialect, sql = build_sql_case(case)
        nt = nontrivial(hist)
        res.case(sql + "|" + dialect, nt, labels=["sql_stream", "sql:" + dialect] + sorted({"sql_has_" + s[0] for s in hist}),
                 sample={"stream": "sql", "dialect": dialect, "sql": sql})
        d = judge(hist, real_sql(sql, dialect), strict_drop=False)
        if d is None:
            return None
        c = {"stream": "sql", "dialect": dialect, "sql": sql, "history": hist}
        fid = classify(c, d)
        if fid and fid in ctx.active:
            res.known(fid, sql)
            return None
        return {"kind": "sql", "case": c, "detail": d}

    return body


def _sql_worker(payload):
    shard, n, ctx = payload
    res = runner.Res()
    runner.hyp_run(sql_strategy(), _sql_body(ctx), res, seed=runner.derive_seed(ctx.seed, "C03sql", shard),
                   max_examples=n, ctx=ctx)
    return res


# ------------------------------------------------------------------------------------------ entry points
def replay(case):
    hist = _norm_hist(case["history"])
    if case.get("stream") == "sql":
        return_d = judge(hist, real_sql(case["sql"], case["dialect"]), strict_drop=False)
    else:
        return_d = judge(hist, real_abstract(hist))
    return None if return_d is None else {"kind": case.get("stream"), "case": case, "detail": return_d}


def run(ctx):
    L = 3 if ctx.quick else 4
    payloads = []
    for ell in range(1, L + 1):
        total = 40 ** ell
        chunks = min(total, runner.NCPU * (8 if ell >= 3 else 1))
        step = (total + chunks - 1) // chunks
        for lo in range(0, total, step):
            payloads.append((ell, lo, min(total, lo + step), ctx))
    res = runner.merge_all(runner.pmap(_abstract_worker, payloads))
    res.merge(runner.merge_all(runner.pmap(_multi_worker, [(i, runner.NCPU, ctx) for i in range(runner.NCPU)])))
    n_sql = ctx.n(1600, 40000)
    res.merge(runner.merge_all(runner.pmap(_sql_worker, [(i, n_sql // runner.NCPU, ctx) for i in range(runner.NCPU)])))
    return res
