"""C15 - configuration overrides are scoped and thread-local.

The harness owns the schedule: every thread program runs in a real `threading.Thread` that takes one step only when
the controller hands it the baton, so an interleaving is a list of slot indices and is replayed exactly.  A scope
`with cfg(**K): ...` is decomposed into its protocol calls (`cfg(**K)`, `__enter__`, `__exit__`), which gives
sub-operation pre-emption points without any source hook.  After EVERY step every live thread reads every key and
the four values are compared with the reference model (per-thread scope over environment / default values).

Streams
  exhaustive : all unordered pairs of well-formed programs of <= 2 operations over OPS_SMALL, all interleavings at
               sub-operation granularity (stateless DFS over enabled slots)
  bounded    : pairs of <= 3 operation programs with a pre-emption bound (quick 1, thorough 2)
  random     : Hypothesis: 2-3 slots, programs of <= 4 operations over the full alphabet, second-generation threads in
               a slot (thread-identifier reuse), environment on/off, random schedules; shrinks to a minimal schedule
  singleton  : random programs against the real module-level SQLLineageConfig, end to end through Schema()/Table()
"""
from __future__ import annotations

import os
import threading

from vlib import runner

ID = "C15"
LEVEL = "exploration"
EXHAUSTIVE = False
EXHAUSTIVE_STREAMS = {'boundary': 'every key with an observable effect x 6 build / evaluate placements of a lazily evaluated runner (complete)', 'exhaustive': 'all sub-operation interleavings of all unordered pairs of well-formed <=2-operation programs (complete)', 'coercion': 'every listed value form x key x mechanism (complete)', 'bounded/random/singleton': 'sampled'}
RULE = ("a case is one (thread programs, environment setting, schedule) triple executed with real threads under a baton "
        "scheduler; after every step all live threads read all 4 keys. exhaustive stream: every unordered pair of well-formed "
        "programs of <=2 operations over a 9-symbol alphabet x every sub-operation interleaving; bounded stream: <=3-operation "
        "programs with a pre-emption bound; random stream: Hypothesis (2-3 slots, <=4 operations, thread-ident reuse, env on/off). "
        "Non-trivial = some context switch happens while a thread is inside a scope (or between the two protocol calls of "
        "opening one); distinct = distinct (programs, env, schedule).")
ASSUMPTIONS = [
    "each schedule runs against a fresh instance of the configuration class (type(SQLLineageConfig)()), so a leak found in one schedule cannot contaminate the next; the singleton stream uses the real object in a forked child",
    "a thread never reads between the two protocol calls of its own `with` (Python cannot do that either); other threads do",
    "programs are well-formed: close / raise only inside a scope the model says is open; scopes still open at program end are closed normally",
    "values drawn for a key are ones parse_value documents (bool-like ints/strings for bool keys, str/int for str keys)",
]

KEYS = ["DIRECTORY", "DEFAULT_SCHEMA", "TSQL_NO_SEMICOLON", "LATERAL_COLUMN_ALIAS_REFERENCE"]
TYPES = {"DIRECTORY": str, "DEFAULT_SCHEMA": str, "TSQL_NO_SEMICOLON": bool, "LATERAL_COLUMN_ALIAS_REFERENCE": bool}
ENVS = [{}, {"SQLLINEAGE_DEFAULT_SCHEMA": "envs", "SQLLINEAGE_TSQL_NO_SEMICOLON": "true"}]

# operations: ("open", ((key, value), ...)) | ("close",) | ("raise",) | ("assign", key, value) | ("nop",)
OPEN_A = ("open", (("DEFAULT_SCHEMA", "s1"),))
OPEN_B = ("open", (("DEFAULT_SCHEMA", "s2"), ("TSQL_NO_SEMICOLON", "true")))
OPEN_C = ("open", (("LATERAL_COLUMN_ALIAS_REFERENCE", 1),))
OPEN_D = ("open", (("DIRECTORY", "/d"), ("TSQL_NO_SEMICOLON", False)))
OPEN_UNKNOWN = ("open", (("NOPE", 1),))
OPEN_MIXED = ("open", (("DEFAULT_SCHEMA", "mx"), ("NOPE", 1)))
OPEN_MIXED2 = ("open", (("NOPE", 1), ("TSQL_NO_SEMICOLON", 1)))
ASSIGN = ("assign", "DEFAULT_SCHEMA", "direct")
OPS_SMALL = [OPEN_A, OPEN_B, OPEN_UNKNOWN, OPEN_MIXED, ASSIGN, ("nop",), ("close",), ("raise",)]
OPS_FULL = OPS_SMALL + [OPEN_C, OPEN_D, OPEN_MIXED2, ("assign", "TSQL_NO_SEMICOLON", True)]


def ref_coerce(value, typ):
    if typ is bool:
        if isinstance(value, bool):
            return value
        if isinstance(value, int):
            return value != 0
        s = str(value)
        try:
            return int(s) != 0
        except ValueError:
            return s.strip().lower() in ("true", "on", "ok", "y", "yes", "1")
    return str(value)


def default_of(key):
    if key == "DIRECTORY":
        return os.path.join(runner.REPO, "sqllineage", "data")
    return {"DEFAULT_SCHEMA": "", "TSQL_NO_SEMICOLON": False, "LATERAL_COLUMN_ALIAS_REFERENCE": False}[key]


class Model:
    def __init__(self, env):
        self.env = env
        self.scope = {}  # thread key -> dict | None

    def expected(self, t):
        sc = self.scope.get(t) or {}
        out = {}
        for k in KEYS:
            if k in sc:
                out[k] = sc[k]
            elif "SQLLINEAGE_" + k in self.env:
                out[k] = ref_coerce(self.env["SQLLINEAGE_" + k], TYPES[k])
            else:
                out[k] = default_of(k)
        return out

    def open_accepted(self, t, kv):
        return all(k in TYPES for k, _ in kv) and not self.scope.get(t)

    def do_open(self, t, kv):
        self.scope[t] = {k: ref_coerce(v, TYPES[k]) for k, v in kv}

    def do_close(self, t):
        self.scope[t] = None

    def in_scope(self, t):
        return bool(self.scope.get(t))


def well_formed_programs(ops, max_len):
    """all op sequences of length <= max_len in which close/raise occur only inside an open scope (model view)"""
    out = []

    def rec(prog, in_scope):
        out.append(tuple(prog))
        if len(prog) == max_len:
            return
        for op in ops:
            if op[0] in ("close", "raise"):
                if not in_scope:
                    continue
                rec(prog + [op], False)
            elif op[0] == "open":
                ok = all(k in TYPES for k, _ in op[1]) and not in_scope
                rec(prog + [op], in_scope or ok)
            else:
                rec(prog + [op], in_scope)

    rec([], False)
    return out


# ------------------------------------------------------------------------------------------ execution
class Worker(threading.Thread):
    def __init__(self):
        super().__init__(daemon=True)
        self.go = threading.Semaphore(0)
        self.done = threading.Semaphore(0)
        self.cmd = None
        self.result = None
        self.tid = None

    def run(self):
        self.tid = threading.get_ident()
        self.done.release()
        while True:
            self.go.acquire()
            cmd = self.cmd
            if cmd is None:
                return
            try:
                self.result = ("ok", cmd())
            except BaseException as e:  # noqa
                self.result = ("exc", e)
            self.done.release()

    def call(self, f):
        self.cmd = f
        self.go.release()
        self.done.acquire()
        return self.result

    def stop(self):
        self.cmd = None
        self.go.release()
        self.join()


class Slot:
    """one schedule slot: a list of programs run one after the other, each in a fresh thread"""

    def __init__(self, programs):
        self.programs = [list(p) for p in programs]
        self.gen = 0
        self.pc = 0
        self.sub = 0  # 0 = at an operation boundary, 1 = between cfg(**K) and __enter__
        self.worker = None
        self.closing = False
        self.finished = not self.programs

    def key(self):
        return (id(self), self.gen)


def _is_cfg_exc(e):
    from sqllineage.exceptions import ConfigException

    return isinstance(e, ConfigException)


def execute(programs_per_slot, env, schedule, new_cfg=None, record=None):
    """Run one schedule. `schedule` is a callable(enabled_slot_indices, step_no, last) -> chosen index.
    returns (verdict|None, info) ; verdict = dict describing the first divergence from the model"""
    from sqllineage.config import SQLLineageConfig

    for k in list(os.environ):
        if k.startswith("SQLLINEAGE_"):
            del os.environ[k]
    os.environ.update(env)
    cfg = new_cfg() if new_cfg else type(SQLLineageConfig)()
    model = Model(env)
    slots = [Slot(p) for p in programs_per_slot]
    trace = []
    info = {"switch_in_scope": False, "ident_reuse": False, "steps": 0, "preemptions": 0}
    idents_seen = set()
    last = None
    verdict = None

    def live():
        return [s for s in slots if s.worker is not None]

    def check_reads(step_desc):
        for s in live():
            if s.sub == 1:
                continue
            tag, val = s.worker.call(lambda: {k: getattr(cfg, k) for k in KEYS})
            exp = model.expected(s.key())
            if tag != "ok":
                return {"what": "read raised", "slot": slots.index(s), "exc": repr(val), "after": step_desc}
            if val != exp or any(type(val[k]) is not type(exp[k]) for k in KEYS):
                return {"what": "read differs from model", "slot": slots.index(s), "generation": s.gen,
                        "read": val, "model": exp, "after": step_desc}
        return None

    # thread start / end only matter for identifier reuse: when every slot has a single program all threads are
    # started up front and stopped at the end, so that the interleavings enumerated are those of config operations
    eager = all(len(p) == 1 for p in programs_per_slot)
    try:
        step_no = 0
        if eager:
            for s in slots:
                s.worker = Worker()
                s.worker.start()
                s.worker.done.acquire()
                idents_seen.add(s.worker.tid)

        def settle():
            if eager:
                for x in slots:
                    if not x.finished and x.pc >= len(x.programs[0]) and x.sub == 0 and not model.in_scope(x.key()):
                        x.finished = True

        settle()
        while verdict is None:
            enabled = [i for i, s in enumerate(slots) if not s.finished]
            if not enabled:
                break
            i = schedule(enabled, step_no, last)
            s = slots[i]
            if last is not None and last != i:
                if last in enabled:
                    info["preemptions"] += 1
                if any(model.in_scope(x.key()) or x.sub == 1 for x in slots if x.worker is not None):
                    info["switch_in_scope"] = True
            last = i
            step_no += 1
            info["steps"] = step_no
            # ---- one step of slot i
            if s.worker is None:
                s.worker = Worker()
                s.worker.start()
                s.worker.done.acquire()
                if s.worker.tid in idents_seen:
                    info["ident_reuse"] = True
                idents_seen.add(s.worker.tid)
                desc = (i, "start", s.gen)
            else:
                prog = s.programs[s.gen]
                if s.pc >= len(prog):
                    if model.in_scope(s.key()):
                        # implicit normal end of a `with` block still open at the end of the program
                        tag, val = s.worker.call(lambda: cfg.__exit__(None, None, None))
                        model.do_close(s.key())
                        desc = (i, "auto-close")
                        if tag != "ok":
                            verdict = {"what": "__exit__ raised", "exc": repr(val), "after": desc}
                    elif eager:
                        s.finished = True
                        desc = (i, "program-end")
                    else:
                        s.worker.stop()
                        s.worker = None
                        s.gen += 1
                        s.pc = 0
                        if s.gen >= len(s.programs):
                            s.finished = True
                        desc = (i, "thread-end")
                else:
                    op = prog[s.pc]
                    t = s.key()
                    if op[0] == "open":
                        kv = op[1]
                        if s.sub == 0:
                            accepted = model.open_accepted(t, kv)
                            tag, val = s.worker.call(lambda: cfg(**dict(kv)))
                            desc = (i, "open:call", kv)
                            if tag == "exc":
                                if not _is_cfg_exc(val):
                                    verdict = {"what": "open raised a non-ConfigException", "exc": repr(val), "after": desc}
                                elif accepted:
                                    verdict = {"what": "valid open rejected", "exc": repr(val), "after": desc}
                                s.pc += 1
                            else:
                                s.sub = 1
                        else:
                            accepted = model.open_accepted(t, kv)
                            tag, val = s.worker.call(lambda: cfg.__enter__())
                            desc = (i, "open:enter", kv)
                            s.sub = 0
                            s.pc += 1
                            if tag == "exc":
                                if not _is_cfg_exc(val):
                                    verdict = {"what": "__enter__ raised a non-ConfigException", "exc": repr(val), "after": desc}
                                elif accepted:
                                    verdict = {"what": "valid open rejected at __enter__", "exc": repr(val), "after": desc}
                            else:
                                if not accepted:
                                    verdict = {"what": "open that must be rejected (unknown key or nested scope) was accepted",
                                               "after": desc}
                                else:
                                    model.do_open(t, kv)
                    elif op[0] in ("close", "raise"):
                        if op[0] == "close":
                            tag, val = s.worker.call(lambda: cfg.__exit__(None, None, None))
                        else:
                            err = ValueError("boom")
                            tag, val = s.worker.call(lambda: cfg.__exit__(ValueError, err, None))
                        model.do_close(t)
                        s.pc += 1
                        desc = (i, op[0])
                        if tag != "ok":
                            verdict = {"what": "__exit__ raised", "exc": repr(val), "after": desc}
                    elif op[0] == "assign":
                        tag, val = s.worker.call(lambda: setattr(cfg, op[1], op[2]))
                        s.pc += 1
                        desc = (i, "assign", op[1])
                        if tag == "ok":
                            verdict = {"what": "direct assignment was not refused", "after": desc}
                        elif not _is_cfg_exc(val):
                            verdict = {"what": "direct assignment raised a non-ConfigException", "exc": repr(val), "after": desc}
                    else:
                        s.pc += 1
                        desc = (i, "nop")
            settle()
            trace.append(desc)
            if record is not None:
                record.append((i, tuple(enabled)))
            if verdict is None:
                verdict = check_reads(desc)
    finally:
        for s in slots:
            if s.worker is not None:
                s.worker.stop()
        for k in list(os.environ):
            if k.startswith("SQLLINEAGE_"):
                del os.environ[k]
    if verdict is not None:
        verdict["trace"] = [list(map(str, d)) for d in trace]
    return verdict, info


def dfs_schedules(programs_per_slot, env, preemption_bound=None, max_schedules=None):
    """stateless DFS over all interleavings; yields (schedule_choices, verdict, info)"""
    prefix = []
    n = 0
    while True:
        rec = []

        def sched(enabled, step_no, last, prefix=prefix):
            if step_no < len(prefix):
                return prefix[step_no]
            # default: keep running the same slot if possible (no pre-emption), else the lowest enabled
            return last if last in enabled else enabled[0]

        verdict, info = execute(programs_per_slot, env, sched, record=rec)
        choices = [c for c, _ in rec]
        yield choices, verdict, info
        n += 1
        if max_schedules and n >= max_schedules:
            return
        # backtrack: find the last position with an untried alternative (respecting the pre-emption bound)
        pos = len(rec) - 1
        nxt = None
        while pos >= 0:
            chosen, enabled = rec[pos]
            order = _alt_order(rec, pos)
            idx = order.index(chosen)
            for alt in order[idx + 1:]:
                cand = choices[:pos] + [alt]
                if preemption_bound is None or _preemptions(rec, cand) <= preemption_bound:
                    nxt = cand
                    break
            if nxt is not None:
                break
            pos -= 1
        if nxt is None:
            return
        prefix = nxt


def _alt_order(rec, pos):
    chosen, enabled = rec[pos]
    last = rec[pos - 1][0] if pos > 0 else None
    first = last if last in enabled else enabled[0]
    return [first] + [e for e in enabled if e != first]


def _preemptions(rec, cand):
    p = 0
    for k in range(1, len(cand)):
        prev = cand[k - 1]
        if cand[k] != prev and prev in rec[k][1]:
            p += 1
    return p


# ------------------------------------------------------------------------------------------ workers
def _case_dict(programs, env, choices):
    return {"programs": programs, "env": env, "schedule": choices}


def classify(case, detail):
    return None


def _judge(programs, env, choices, verdict, info, res, ctx, stream):
    key = (programs, sorted(env.items()), tuple(choices))
    labels = [stream, "env" if env else "noenv"]
    if info["ident_reuse"]:
        labels.append("ident_reuse")
    if info["preemptions"]:
        labels.append("preempt>=1")
    res.case(key, info["switch_in_scope"], labels=labels,
             sample={"programs": programs, "env": env, "schedule": list(choices)} if info["switch_in_scope"] and info["preemptions"] else None)
    if verdict is not None:
        case = _case_dict(programs, env, list(choices))
        fid = classify(case, verdict)
        if fid and fid in ctx.active:
            res.known(fid, case)
            return None
        return {"kind": stream, "case": case, "detail": verdict}
    return None


def _pairs_worker(payload):
    pairs, env_idx, bound, ctx, stream = payload
    res = runner.Res()
    for p, q in pairs:
        if ctx.out_of_time():
            res.budget_exhausted = True
            break
        progs = ((p,), (q,))
        for choices, verdict, info in dfs_schedules(progs, ENVS[env_idx], preemption_bound=bound):
            v = _judge(progs, ENVS[env_idx], choices, verdict, info, res, ctx, stream)
            if v is not None:
                if len(res.violations) < 2:
                    res.violation(v["kind"], v["case"], v["detail"])
                break
    return res


def strategy():
    from hypothesis import strategies as st

    def program(max_len):
        @st.composite
        def prog(draw):
            n = draw(st.integers(0, max_len))
            out, in_scope = [], False
            for _ in range(n):
                cands = [o for o in OPS_FULL if o[0] not in ("close", "raise") or in_scope]
                op = draw(st.sampled_from(cands))
                if op[0] in ("close", "raise"):
                    in_scope = False
                elif op[0] == "open" and all(k in TYPES for k, _ in op[1]) and not in_scope:
                    in_scope = True
                out.append(op)
            return tuple(out)

        return prog()

    slot = st.lists(program(4), min_size=1, max_size=2).map(tuple)
    return st.tuples(st.lists(slot, min_size=2, max_size=3).map(tuple), st.integers(0, 1),
                     st.lists(st.integers(0, 5), min_size=0, max_size=60))


def _random_body(ctx):
    def body(case, res):
        programs, env_idx, picks = case
        rec = []

        def sched(enabled, step_no, last):
            k = picks[step_no] if step_no < len(picks) else 0
            return enabled[k % len(enabled)]

        verdict, info = execute(programs, ENVS[env_idx], sched, record=rec)
        return _judge(programs, ENVS[env_idx], [c for c, _ in rec], verdict, info, res, ctx, "random")

    return body


def _random_worker(payload):
    shard, n, ctx = payload
    res = runner.Res()
    runner.hyp_run(strategy(), _random_body(ctx), res, seed=runner.derive_seed(ctx.seed, "C15rand", shard), max_examples=n, ctx=ctx)
    return res


def _singleton_child(programs, env, choices):
    """run in a forked child against the real module-level object and check Schema() end to end"""
    from sqllineage.config import SQLLineageConfig
    from sqllineage.core.models import Schema

    it = iter(choices)

    def sched(enabled, step_no, last):
        c = next(it, None)
        return c if c in enabled else enabled[0]

    verdict, info = execute(programs, env, sched, new_cfg=lambda: SQLLineageConfig)
    if verdict is None:
        # after all scopes ended nothing may be left behind: a brand-new thread and the main thread see defaults
        out = {}
        th = threading.Thread(target=lambda: out.update(v=str(Schema()), d=SQLLineageConfig.DEFAULT_SCHEMA))
        th.start()
        th.join()
        if out["v"] != "<default>" or out["d"] != "" or str(Schema()) != "<default>":
            verdict = {"what": "override leaked out of its scope into the real singleton", "seen": out}
    return verdict


def _singleton_worker(payload):
    shard, n, ctx = payload
    import multiprocessing as mp

    res = runner.Res()

    def body(case, res_):
        programs, env_idx, picks = case
        rec = []

        def sched(enabled, step_no, last):
            k = picks[step_no] if step_no < len(picks) else 0
            return enabled[k % len(enabled)]

        # first run on a private instance to learn the concrete schedule, then replay it on the singleton in a child
        verdict, info = execute(programs, {}, sched, record=rec)
        choices = [c for c, _ in rec]
        if verdict is None:
            r, w = os.pipe()
            pid = os.fork()
            if pid == 0:
                try:
                    import json as _j
                    v = _singleton_child(programs, {}, choices)
                    os.write(w, _j.dumps(v, default=str).encode())
                finally:
                    os._exit(0)
            os.close(w)
            data = b""
            while True:
                chunk = os.read(r, 65536)
                if not chunk:
                    break
                data += chunk
            os.close(r)
            os.waitpid(pid, 0)
            import json as _j
            verdict = _j.loads(data) if data else {"what": "singleton child died"}
        return _judge(programs, {}, choices, verdict, info, res_, ctx, "singleton")

    runner.hyp_run(strategy(), body, res, seed=runner.derive_seed(ctx.seed, "C15single", shard), max_examples=n, ctx=ctx)
    return res


# ------------------------------------------------------------------------------------------ coercion
BOOL_VALUES = [True, False, 0, 1, 2, -1, "true", "TRUE", "True", " yes ", "On", "ok", "OK", "Y", "y", "YES", "no", "off", "0", "1",
               "2", "-1", " 1 ", "false", "FALSE", "", "t", "enabled"]
STR_VALUES = ["abc", "", "MiXed", "with space", "<default>", 5, 0, True, "ünï", "a.b"]


def _coercion_stream(ctx):
    """every documented value form x every key, through a scope and through the environment (single thread)"""
    from sqllineage.config import SQLLineageConfig

    res = runner.Res()
    for key in KEYS:
        for v in (BOOL_VALUES if TYPES[key] is bool else STR_VALUES):
            for via in ("scope", "env"):
                if via == "env" and not isinstance(v, str):
                    continue
                case = {"coercion": [key, v, via]}
                res.case(("coercion", key, repr(v), via), True, labels=["coercion"], sample=case)
                mm = replay(case)
                if mm is not None:
                    res.violation("coercion", case, mm["detail"])
    return res


def _replay_coercion(case):
    from sqllineage.config import SQLLineageConfig

    key, v, via = case["coercion"]
    cfg = type(SQLLineageConfig)()
    exp = ref_coerce(v, TYPES[key])
    for k in list(os.environ):
        if k.startswith("SQLLINEAGE_"):
            del os.environ[k]
    try:
        if via == "scope":
            with cfg(**{key: v}):
                got = getattr(cfg, key)
        else:
            os.environ["SQLLINEAGE_" + key] = v
            got = getattr(cfg, key)
    except Exception as e:  # noqa
        return {"kind": "coercion", "case": case, "detail": {"what": "documented value form raised", "exc": repr(e)}}
    finally:
        os.environ.pop("SQLLINEAGE_" + key, None)
    after = getattr(cfg, key)
    if got != exp or type(got) is not type(exp) or after != default_of(key):
        return {"kind": "coercion", "case": case, "detail": {"what": "coerced value differs", "got": repr(got), "expected": repr(exp),
                                                              "after_scope": repr(after)}}
    return None


# ------------------------------------------------------------------------------------------ objects that cross a scope / thread boundary
BOUNDARY_KEYS = {
    # key -> (override value, dialect, script, observation, value seen without the override, value seen with it)
    "TSQL_NO_SEMICOLON": (True, "tsql", "SELECT a FROM t1\nSELECT b FROM t2", lambda lr: len(lr.statements()), 1, 2),
    "DEFAULT_SCHEMA": ("ovr", "ansi", "SELECT a FROM t1", lambda lr: str(lr.source_tables[0]), "<default>.t1", "ovr.t1"),
}
BOUNDARY_KEYS["DEFAULT_SCHEMA(legacy analyzer)"] = ("ovr", "non-validating", "SELECT a FROM t1", lambda lr: str(lr.source_tables[0]), "<default>.t1", "ovr.t1")
# sequences of FRESH runners in one process: what an earlier analysis saw under its scope must not colour a later one
SEQUENCE_SHAPES = ["analysis_in_scope_then_fresh_analysis_after_it", "analysis_in_scope_then_fresh_analysis_in_new_thread", "analysis_in_scope_A_then_in_scope_B_with_other_value",
                   "analysis_without_scope_then_in_scope", "analysis_in_thread_scope_then_in_main_thread"]
BOUNDARY_SHAPES = ["built_in_scope_evaluated_after_normal_exit", "built_in_scope_evaluated_after_exception_exit", "built_in_scope_of_thread_A_evaluated_in_thread_B",
                   "built_before_scope_evaluated_inside", "built_and_evaluated_inside", "built_in_thread_A_scope_evaluated_in_thread_B_own_scope"]


def _boundary_child(key, shape):
    """a lazily evaluated runner must see the configuration in effect where and when it is evaluated (thread and moment), not where it was built: an
    override that travels with the object is visible outside its scope / in another thread"""
    from sqllineage.config import SQLLineageConfig
    from sqllineage.runner import LineageRunner

    val, dialect, sql, observe_, plain, overridden = BOUNDARY_KEYS[key]
    skey = key
    key = key.split("(")[0]
    mk = lambda: LineageRunner(sql, dialect=dialect)  # noqa: E731
    box = {}

    def in_thread(fn):
        th = threading.Thread(target=lambda: box.update(v=fn()))
        th.start()
        th.join()
        return box.get("v")

    import warnings as _w

    with _w.catch_warnings():
        _w.simplefilter("ignore")
        if shape == "built_in_scope_evaluated_after_normal_exit":
            with SQLLineageConfig(**{key: val}):
                lr = mk()
            got, want = observe_(lr), plain
        elif shape == "built_in_scope_evaluated_after_exception_exit":
            try:
                with SQLLineageConfig(**{key: val}):
                    lr = mk()
                    raise KeyError("boom")
            except KeyError:
                pass
            got, want = observe_(lr), plain
        elif shape == "built_in_scope_of_thread_A_evaluated_in_thread_B":
            with SQLLineageConfig(**{key: val}):
                lr = mk()
                got, want = in_thread(lambda: observe_(lr)), plain
        elif shape == "built_before_scope_evaluated_inside":
            lr = mk()
            with SQLLineageConfig(**{key: val}):
                got, want = observe_(lr), overridden
        elif shape == "built_and_evaluated_inside":
            with SQLLineageConfig(**{key: val}):
                got, want = observe_(mk()), overridden
        elif shape in SEQUENCE_SHAPES:
            cfgkey = key.split("(")[0]
            other = (False, plain) if isinstance(val, bool) else ("oth", overridden.replace("ovr", "oth"))
            if shape == "analysis_in_scope_then_fresh_analysis_after_it":
                with SQLLineageConfig(**{cfgkey: val}):
                    first = observe_(mk())
                got, want = [first, observe_(mk())], [overridden, plain]
            elif shape == "analysis_in_scope_then_fresh_analysis_in_new_thread":
                with SQLLineageConfig(**{cfgkey: val}):
                    first = observe_(mk())
                    got, want = [first, in_thread(lambda: observe_(mk()))], [overridden, plain]
            elif shape == "analysis_in_scope_A_then_in_scope_B_with_other_value":
                with SQLLineageConfig(**{cfgkey: val}):
                    first = observe_(mk())
                with SQLLineageConfig(**{cfgkey: other[0]}):
                    second = observe_(mk())
                got, want = [first, second], [overridden, other[1]]
            elif shape == "analysis_without_scope_then_in_scope":
                first = observe_(mk())
                with SQLLineageConfig(**{cfgkey: val}):
                    second = observe_(mk())
                got, want = [first, second], [plain, overridden]
            else:
                def a():
                    with SQLLineageConfig(**{cfgkey: val}):
                        return observe_(mk())
                first = in_thread(a)
                got, want = [first, observe_(mk())], [overridden, plain]
        else:
            def b():
                with SQLLineageConfig(**{key: val}):
                    return observe_(lr)
            lr = mk()
            got, want = in_thread(b), overridden
    if got != want:
        return {"what": "a runner carried the configuration across a scope / thread boundary" if shape not in SEQUENCE_SHAPES else
                "an earlier analysis under a scope coloured a later one", "key": skey, "shape": shape, "observed": got, "expected": want}
    return None


def _boundary_stream(ctx):
    from vlib.props import C12

    res = runner.Res()
    for key in BOUNDARY_KEYS:
        for shape in BOUNDARY_SHAPES + SEQUENCE_SHAPES:
            c = {"boundary": [key, shape]}
            res.case(("boundary", key, shape), True, labels=["boundary", "boundary_key:" + key], sample=c)
            v = C12.in_child(_boundary_child, key, shape)
            if v is not None:
                res.violation("boundary", c, v)
    return res


# ------------------------------------------------------------------------------------------ entry points
def _tup(x):
    return tuple(_tup(i) for i in x) if isinstance(x, (list, tuple)) else x


def replay(case):
    if "coercion" in case:
        return _replay_coercion(case)
    if "boundary" in case:
        from vlib.props import C12

        v = C12.in_child(_boundary_child, *case["boundary"])
        return None if v is None else {"kind": "replay", "case": case, "detail": v}
    programs = _tup(case["programs"])
    it = iter(case["schedule"])

    def sched(enabled, step_no, last):
        c = next(it, None)
        return c if c in enabled else enabled[0]

    verdict, info = execute(programs, dict(case.get("env") or {}), sched)
    if verdict is None and case.get("singleton"):
        verdict = _singleton_child(programs, {}, case["schedule"])
    return None if verdict is None else {"kind": "replay", "case": case, "detail": verdict}


def run(ctx):
    res = _coercion_stream(ctx)
    res.merge(_boundary_stream(ctx))
    # exhaustive: all unordered pairs of <=2-op programs, all sub-operation interleavings, both env settings
    p2 = well_formed_programs(OPS_SMALL, 2)
    pairs = [(p, q) for a, p in enumerate(p2) for q in p2[a:]]
    res.extra["exhaustive_programs_len<=2"] = len(p2)
    res.extra["exhaustive_program_pairs"] = len(pairs)
    chunks = runner.NCPU * 4
    payloads = []
    for env_idx in (0, 1):
        sel = pairs
        for c in range(chunks):
            payloads.append((sel[c::chunks], env_idx, None, ctx, "exhaustive"))
    res.merge(runner.merge_all(runner.pmap(_pairs_worker, payloads)))
    # bounded: <=3-op programs with a pre-emption bound
    p3 = [p for p in well_formed_programs(OPS_SMALL, 3) if len(p) == 3]
    stride = 11 if ctx.quick else 1
    pairs3 = [(p, q) for a, p in enumerate(p3) for q in p3[a:]]
    pairs3 = pairs3[(ctx.seed % stride):: stride * (4 if ctx.quick else 1)]
    bound = 1 if ctx.quick else 2
    res.extra["bounded_program_pairs"] = len(pairs3)
    res.merge(runner.merge_all(runner.pmap(_pairs_worker, [(pairs3[c::chunks], 0, bound, ctx, f"bounded(pb={bound})") for c in range(chunks)])))
    n = ctx.n(8000, 80000)
    res.merge(runner.merge_all(runner.pmap(_random_worker, [(i, n // runner.NCPU, ctx) for i in range(runner.NCPU)])))
    n2 = ctx.n(320, 4000)
    res.merge(runner.merge_all(runner.pmap(_singleton_worker, [(i, max(1, n2 // runner.NCPU), ctx) for i in range(runner.NCPU)])))
    return res
