"""C09 - dialects and both parsers agree on core SQL.

Generator : core statements from the SQL IR (vlib/sqlgen.stmt - keyword-free identifiers, common spelling), rendered ONCE.
Oracle    : differential - every sqlfluff dialect whose own parser accepts the text (and whose parse tree carries the IR's
            signature: parse-shape guard per dialect) must report the same tables and the same column pairs; the legacy
            non-validating analyzer must report the same TABLE lineage.  When the configurations split, the side that differs
            from the IR reference result is the one reported (the reference is the arbiter, not a vote).
"""
from __future__ import annotations

import os

from vlib import observe, runner, sqlgen
from vlib import sqlir as ir
from vlib.props import C01, C02

ID = "C09"
LEVEL = "exploration"
RULE = ("case = one core IR statement analysed under all 28 sqlfluff dialects + the non-validating analyzer (29 configurations). Non-trivial = "
        "accepted by >= 3 dialects and (reads >= 2 tables or has nesting); distinct = distinct SQL text. evaluations counts analyses "
        "(statement x accepting configuration).")
ASSUMPTIONS = [
    "a dialect takes part in a case only if its own sqlfluff parser accepts the text without lex/parse violation and reads the same table references / SELECT / CTE counts as the IR",
    "the non-validating analyzer is compared on table lineage only, as the property states",
    "(dialect, feature) cells listed in known_findings.json are counted, not judged; any other disagreement is a violation",
]


def views(stmt, sql, res):
    dl = C01.all_dialects()
    out = {}
    for d in dl:
        acc = C01.accepted(stmt, sql, d)
        if acc is None:
            res.discard("rejected_by_dialect:" + d)
            continue
        if acc is False:
            res.discard("parser_divergent:" + d)
            continue
        out[d] = C02.actual(sql, d)
    nv = C02.actual(sql, "non-validating")
    return out, nv


def diff_vs_reference(exp, got, tables_only=False):
    S, T, pairs = exp
    if "EXC" in got:
        return {"what": "raises", "exc": got["EXC"], "msg": got.get("msg")}
    if got["S"] != list(S) or got["T"] != list(T):
        return {"what": "tables differ", "expected": [list(S), list(T)], "reported": [got["S"], got["T"]]}
    if tables_only:
        return None
    e, g = C02.norm_pairs(pairs), C02.norm_pairs(got["pairs"])
    if e != g:
        return {"what": "column pairs differ", "missing": [list(p) for p in sorted(set(e) - set(g))], "extra": [list(p) for p in sorted(set(g) - set(e))]}
    return None


def classify(case, detail):
    d = case.get("dialect")
    what = detail.get("what")
    sql = case.get("sql", "")
    up = sql.upper()
    if d != "non-validating" and what == "column pairs differ" and "setop_first_branch_sourceless_item" in (case.get("features") or []):
        return "K-union-literal@C09"
    if d == "clickhouse" and what == "tables differ" and not (set(detail["reported"][0]) - set(detail["expected"][0])) and detail["reported"][1] == detail["expected"][1]:
        return "K-clickhouse-where-subquery@C09"
    if d == "clickhouse" and up.startswith("CREATE VIEW") and what == "column pairs differ" and C02._retargeted_only(detail):
        return "K-clickhouse-view-collist@C09"
    if d == "impala" and what == "raises" and detail.get("exc", "").endswith("UnsupportedStatementException") and up.startswith("CREATE TABLE"):
        return "K-unsupported-impala-ctas@C09"
    if d == "exasol" and up.startswith("CREATE VIEW") and what == "tables differ" and detail["reported"][1] == [] and detail["reported"][0] == detail["expected"][0]:
        return "K-exasol-create-view-target@C09"
    if d == "non-validating":
        for fid, pred in NV_KNOWN.items():
            if pred(case, up, what, detail):
                return fid
    return None


def _only_missing_sources(detail):
    return detail.get("what") == "tables differ" and set(detail["reported"][0]) < set(detail["expected"][0]) and detail["reported"][1] == detail["expected"][1]


NV_KNOWN = {
    "K-sqlparse-recursive-cte@C09": lambda case, up, what, detail: "WITH RECURSIVE" in up and what == "tables differ" and detail["reported"][1] == detail["expected"][1]
    and set(detail["expected"][0]) < set(detail["reported"][0]) and all(t.startswith("<default>.q") for t in set(detail["reported"][0]) - set(detail["expected"][0])),
    "K-sqlparse-nested-join-derived@C09": lambda case, up, what, detail: any(f == "from:right_nested_join_derived" for f in (case.get("features") or [])) and _only_missing_sources(detail),
    "K-sqlparse-paren-where-subquery@C09": lambda case, up, what, detail: "paren_where_subquery" in (case.get("features") or []) and (
        _only_missing_sources(detail) or (up.startswith("CREATE TABLE IF NOT EXISTS") and set(detail["reported"][0]) <= set(detail["expected"][0]) and detail["reported"][1] == [])),
    "K-sqlparse-mixedjoin@C09": lambda case, up, what, detail: "comma_after_join" in (case.get("features") or []) and _only_missing_sources(detail),
    "K-sqlparse-ctas-if-not-exists@C09": lambda case, up, what, detail: up.startswith("CREATE TABLE IF NOT EXISTS") and what == "tables differ"
    and detail["reported"][1] == [] and set(detail["reported"][0]) <= set(detail["expected"][0])
    and ("comma_after_join" in (case.get("features") or []) or detail["reported"][0] == detail["expected"][0]),
}


def judge(stmt, res, ctx):
    sql = ir.r_stmt(stmt)
    exp = ir.expected(stmt)
    feats = C02.ir_features(stmt)
    vs, nv = views(stmt, sql, res)
    sig = ir.ir_signature(stmt)
    nt = len(vs) >= 3 and (len(exp[0]) >= 2 or (sig and sig[1] + sig[2] >= 2))
    res.case(sql, bool(nt), labels=["statements", f"accepting_dialects>={min(len(vs) // 5 * 5, 25)}"],
             sample={"sql": sql, "accepted_by": len(vs)} if len(sql) < 260 else None)
    res.evals += len(vs)  # analyses
    res.labels["analyses"] += len(vs) + 1
    distinct = {observe.h8(v) if False else str(sorted(v.items())) for v in vs.values()}
    out = None
    if len(distinct) > 1 or True:
        for d, v in sorted(vs.items()):
            df = diff_vs_reference(exp, v)
            if df is None:
                continue
            if len(distinct) == 1:
                # every dialect gives the same answer and it is not the reference's: not a disagreement between dialects
                res.labels["unanimous_but_differs_from_reference(C01/C02 matter)"] += 1
                break
            c = {"sql": sql, "dialect": d, "expected": {"S": exp[0], "T": exp[1], "pairs": [list(p) for p in exp[2]]}, "features": feats,
                 "agreeing_dialects": sorted(x for x, y in vs.items() if diff_vs_reference(exp, y) is None)[:6]}
            fid = classify(c, df)
            if fid and fid in ctx.active:
                res.known(fid, c)
                continue
            if os.environ.get("VERIF_COLLECT"):
                res.known("UNLISTED | " + d + " | " + df["what"] + " | " + C01._form(sql) + " | " + str(df.get("exc", "")), c)
                continue
            out = out or {"kind": "dialect-disagreement", "case": c, "detail": df}
    # legacy analyzer: table lineage only; compared with the reference when the sqlfluff dialects that accept the text agree with it
    if vs and all(diff_vs_reference(exp, v, tables_only=True) is None for v in vs.values() if "EXC" not in v):
        df = diff_vs_reference(exp, nv, tables_only=True)
        if df is not None:
            c = {"sql": sql, "dialect": "non-validating", "expected": {"S": exp[0], "T": exp[1], "pairs": []}, "features": feats}
            fid = classify(c, df)
            if fid and fid in ctx.active:
                res.known(fid, c)
            elif os.environ.get("VERIF_COLLECT"):
                res.known("UNLISTED | non-validating | " + df["what"] + " | " + C01._form(sql) + " | " + str(df.get("exc", "")), c)
            else:
                out = out or {"kind": "parser-disagreement", "case": c, "detail": df}
    return out


def _worker(payload):
    shard, n, depth, ctx = payload
    res = runner.Res()

    def body(stmt, res_):
        return judge(stmt, res_, ctx)

    runner.hyp_run(sqlgen.stmt(depth), body, res, seed=runner.derive_seed(ctx.seed, "C09", shard, depth), max_examples=n, ctx=ctx)
    return res


def _skeleton_worker(payload):
    """deterministic stream: every FROM shape (no subquery) and every subquery position (over three FROM shapes) of the C01 skeleton as INSERT INTO,
    under ALL 28 dialects and the legacy analyzer; table lineage only (several positions are outside the column reference model)"""
    shard, nshards, ctx = payload
    res = runner.Res()
    dl = C01.all_dialects()
    idx = 0
    for stmt, feats in C01.skeletons((0,)):
        if len(feats) == 1 and not isinstance(stmt, (ir.Noop, ir.CreateLike)):  # CREATE LIKE / CLONE: per-dialect cells are C01 findings
            # statement kinds with their own FROM forms (UPDATE with / without FROM, MERGE, SELECT INTO, INSERT VALUES)
            feats = [feats[0], "from:-", feats[0][5:]]
        if len(feats) < 3 or ("kind:insert_into" not in feats and feats[1] != "from:-"):
            continue
        fshape = next(f for f in feats if f.startswith("from:"))
        pos = feats[2]
        if pos != "none" and fshape not in ("from:single", "from:comma2", "from:join:LEFT JOIN", "from:-"):
            continue
        if pos in ("scalar_subquery_select_item", "having_subquery"):
            continue  # finding probes of C01
        idx += 1
        if idx % nshards != shard:
            continue
        sql = ir.r_stmt(stmt)
        exp = ir.expected_tables(stmt)
        exp3 = (exp[0], exp[1], [])
        views_ = {}
        for d in dl:
            if C01.accepted(stmt, sql, d):
                views_[d] = C02.actual(sql, d)
        views_["non-validating"] = C02.actual(sql, "non-validating")
        res.case(("skeleton", sql), len(views_) >= 4, labels=["skeleton", "skeleton:" + pos], sample={"sql": sql, "accepted_by": len(views_) - 1} if len(sql) < 200 else None)
        res.evals += len(views_) - 1
        res.labels["analyses"] += len(views_)
        good = [d for d, v in views_.items() if diff_vs_reference(exp3, v, tables_only=True) is None]
        if not good:
            res.labels["unanimous_but_differs_from_reference(C01 matter)"] += 1
            continue
        for d, v in sorted(views_.items()):
            df = diff_vs_reference(exp3, v, tables_only=True)
            if df is None:
                continue
            c = {"sql": sql, "dialect": d, "expected": {"S": exp[0], "T": exp[1], "pairs": []}, "features": C02.ir_features(stmt) + list(feats), "agreeing_dialects": good[:6], "tables_only": True}
            fid = classify(c, df)
            if fid and fid in ctx.active:
                res.known(fid, c)
            elif os.environ.get("VERIF_COLLECT"):
                res.known("UNLISTED skeleton | " + d + " | " + df["what"] + " | " + fshape + " | " + pos, c)
            elif len(res.violations) < 4:
                res.violation("dialect-disagreement" if d != "non-validating" else "parser-disagreement", c, df)
    return res


def replay(case):
    e = case["expected"]
    exp = (e["S"], e["T"], [tuple(p) for p in e.get("pairs", [])])
    got = C02.actual(case["sql"], case["dialect"])
    df = diff_vs_reference(exp, got, tables_only=case["dialect"] == "non-validating" or case.get("tables_only", False))
    if df is None:
        return None
    if case.get("no_agreeing_configuration_needed"):
        return {"kind": "replay", "case": case, "detail": df}
    # a disagreement needs another configuration that does match the reference
    ref = C02.actual(case["sql"], "ansi" if case["dialect"] != "ansi" else "postgres")
    if diff_vs_reference(exp, ref, tables_only=case["dialect"] == "non-validating" or case.get("tables_only", False)) is not None:
        return None
    return {"kind": "replay", "case": case, "detail": df}


def run(ctx):
    n = ctx.n(128, 8000)
    payloads = [(i, max(1, n // runner.NCPU), 2 if i % 4 == 0 else 1, ctx) for i in range(runner.NCPU)]
    res = runner.merge_all(runner.pmap(_worker, payloads))
    nshards = runner.NCPU * 2
    res.merge(runner.merge_all(runner.pmap(_skeleton_worker, [(i, nshards, ctx) for i in range(nshards)])))
    return res
