"""C01 - single-statement table lineage is exact.

Streams
  skeleton : bounded-exhaustive product  statement kind x FROM shape x subquery position x nesting (IR values built by
             nested loops), rendered for ansi and for every sampled (quick) / every (thorough) dialect that accepts it
  random   : Hypothesis statements from vlib/sqlgen.stmt_tables to depth 2 (quick) / 3-4 (thorough)
Oracle     : vlib/sqlir.expected_tables (independent walk over the IR): exact source_tables and target_tables; statements
             that move no data must report nothing.  Whether a dialect accepts a text is decided by sqlfluff's parser
             alone, and a case is judged only when the parser's tree carries the IR's coarse signature (parse-shape guard).
"""
from __future__ import annotations

import itertools
import os

from vlib import observe, runner, sqlgen
from vlib import sqlir as ir

ID = "C01"
LEVEL = "exploration"
EXHAUSTIVE = False
EXHAUSTIVE_STREAMS = {'skeleton': 'thorough tier: the full product under all 28 dialects (complete); quick tier: a seeded fifth under ansi + 2-3 dialects', 'random': 'sampled'}
RULE = ("case = (IR statement, dialect). skeleton stream: every combination of statement kind (INSERT x3 styles, CTAS, CREATE VIEW, bare query, "
        "CTE-prefixed INSERT, UPDATE..FROM, MERGE table/subquery source, CREATE LIKE, SELECT INTO, INSERT VALUES, no-op kinds) x FROM shape (single, "
        "aliased, schema-qualified, 2/3-way comma, 7 join kinds with ON/USING, chained joins, derived table, derived in JOIN, CTE reference, "
        "JOIN mixed with comma) x subquery position (none, WHERE IN/EXISTS/comparison/AND/OR/NOT/parentheses, two and three subqueries in one "
        "predicate, CASE arms, function argument, set-operation branches) x nesting depth <= 2; random stream: Hypothesis to depth 2-4. "
        "Non-trivial = the statement reads >= 2 base tables, or has nesting >= 1, or is not a plain INSERT; distinct = distinct (SQL text, dialect).")
ASSUMPTIONS = [
    "sqlfluff's parser decides acceptance; a case whose parse tree does not carry the IR's signature (table references, number of SELECTs and CTEs) is discarded and counted as parser_divergent",
    "subqueries in UPDATE/DELETE WHERE clauses and in ORDER BY are not generated (the property is silent there)",
    "scalar subqueries directly in the select list and in HAVING are generated only as finding probes (known findings)",
]

DIALECTS_QUICK = ["ansi", "sparksql", "postgres", "mysql", "snowflake", "bigquery", "tsql", "hive", "redshift", "trino", "duckdb", "oracle",
                  "databricks", "sqlite", "clickhouse", "teradata", "exasol", "athena", "db2", "greenplum", "mariadb", "materialize",
                  "soql", "starrocks", "vertica", "impala", "doris", "flink"]
_state = {}


def all_dialects():
    if "dialects" not in _state:
        from sqllineage.core.parser.sqlfluff.analyzer import SqlFluffLineageAnalyzer

        _state["dialects"] = sorted(SqlFluffLineageAnalyzer.SUPPORTED_DIALECTS)
    return _state["dialects"]


def nesting(stmt):
    sig = ir.ir_signature(stmt)
    return (sig[1] + sig[2] - 1) if sig else 0


def actual_tables(sql, dialect):
    try:
        lr = observe.runner_of(sql, dialect)
        return {"S": [str(t) for t in lr.source_tables], "T": [str(t) for t in lr.target_tables], "I": [str(t) for t in lr.intermediate_tables]}
    except Exception as e:  # noqa
        return {"EXC": observe.exc_name(e), "msg": str(e)[:200]}


def accepted(stmt, sql, dialect):
    """None = dialect rejects; False = parser reads the text differently from the IR (discard); True = judge"""
    psig = ir.parse_signature(sql, dialect)
    if psig is None:
        return None
    isig = ir.ir_signature(stmt)
    if isig is None:
        if isinstance(stmt, ir.Noop):
            # parse-shape guard for statements without tables in the signature: the dialect must read the text as a statement of
            # that kind (tsql, for one, reads 'SHOW TABLES' as a procedure call): its statement type names the leading keyword
            st_type = noop_statement_type(sql, dialect)
            return st_type is not None and sql.split()[0].lower() in st_type
        return True
    return psig == isig


def noop_statement_type(sql, dialect):
    from vlib import rewrite

    try:
        tree = rewrite.linter(dialect).parse_string(sql).tree
        seg = next(s for s in tree.segments if s.type in ("statement", "batch"))
        while seg.type in ("statement", "batch"):
            seg = seg.segments[0]
        return seg.type
    except Exception:  # noqa
        return None


def compare(expected, got):
    S, T = expected
    if "EXC" in got:
        return {"what": "accepted supported statement raises", "exc": got["EXC"], "msg": got.get("msg")}
    # a table that is both read and written by one statement is reported as source and target
    if got["S"] != S:
        return {"what": "source tables differ", "expected": S, "reported": got["S"], "missing": sorted(set(S) - set(got["S"])),
                "extra": sorted(set(got["S"]) - set(S))}
    if got["T"] != T:
        return {"what": "target tables differ", "expected": T, "reported": got["T"]}
    if got["I"]:
        return {"what": "single statement reports intermediate tables", "reported": got["I"]}
    return None


# ------------------------------------------------------------------------------------------ known findings
def classify(case, detail):
    feats = set(case.get("features") or [])
    d = case.get("dialect")
    what = detail.get("what", "")
    missing, extra = set(detail.get("missing") or []), set(detail.get("extra") or [])
    for fid, pred in KNOWN.items():
        if pred(case, feats, d, what, missing, extra, detail):
            return fid
    return _probe_finding(case, feats, detail) or _classify_cells(case, detail)


def _between(core, S, full):
    return set(core) <= set(S) < set(full) if set(S) != set(full) else False


def _lost_only(case, detail, skip_key):
    """symptom shared by the 'blind position' findings: the target is right, nothing is invented, and every missing table is
    reachable only through the named position(s): core <= reported < full"""
    if detail.get("what") != "source tables differ" or detail.get("extra"):
        return False
    core = (case.get("cores") or {}).get(skip_key)
    return core is not None and _between(core, detail["reported"], detail["expected"])


def _raises_unsupported(detail):
    return detail.get("what") == "accepted supported statement raises" and detail.get("exc", "").endswith("UnsupportedStatementException")


def _load_cells():
    """(dialect, statement form) cells listed in known_findings.json for which the dialect's parse tree uses a statement type no
    extractor claims (UnsupportedStatementException) - data-driven so that a new cell is a violation until it is listed"""
    import json

    path = os.path.join(runner.HOME, "known_findings.json")
    cells = {}
    for e in json.load(open(path)).get("findings", []):
        if e["property"] == ID and e.get("cell"):
            cells[e["id"]] = e["cell"]
    return cells


def _form(sql):
    """leading keywords of the statement up to the first identifier-ish position, e.g. 'CREATE TABLE IF NOT EXISTS'"""
    words = []
    for w in sql.replace("(", " ").split():
        if w.upper() in ("INSERT", "INTO", "OVERWRITE", "TABLE", "CREATE", "OR", "REPLACE", "VIEW", "IF", "NOT", "EXISTS", "SELECT", "UPDATE", "MERGE",
                         "WITH", "ANALYZE", "SHOW", "DESCRIBE", "TRUNCATE", "DELETE", "FROM", "USE", "SET", "REFRESH", "CACHE", "UNCACHE", "DROP",
                         "FUNCTION", "TABLES"):
            words.append(w.upper())
        else:
            break
    up = " " + sql.upper() + " "
    if words[:2] == ["CREATE", "TABLE"]:
        for kw in (" CLONE ", " LIKE "):
            if kw in up and " AS " not in up.split(kw)[0]:
                words.append("..." + kw.strip())
    return " ".join(words)


PROBE_TAGS = ("teradata-update-from", "nested-setop-paren", "lateral-subquery", "join-on-subquery", "where-quantified-subquery", "where-expression-subquery", "update-merge-subquery",
              "order-by-subquery")


def _probe_finding(case, feats, detail):
    for tag in PROBE_TAGS:
        if "probe:" + tag in feats and _lost_only(case, detail, "probe"):
            return "K-" + tag + "@C01"
    return None


KNOWN = {
    "K-scalar-select@C01": lambda case, feats, d, what, missing, extra, detail: "scalar_subquery_select_item" in feats and (
        _lost_only(case, detail, "scalar_item") or _lost_only(case, detail, "scalar_item+having")),
    "K-having-sub@C01": lambda case, feats, d, what, missing, extra, detail: "having_subquery" in feats and _lost_only(case, detail, "having"),
    "K-clickhouse-where-subquery@C01": lambda case, feats, d, what, missing, extra, detail: d == "clickhouse" and _lost_only(case, detail, "where_sub+scalar_item+having"),
}


def _classify_cells(case, detail):
    if case.get("dialect") == "exasol" and _form(case.get("sql", "")) == "CREATE TABLE ...LIKE" and detail.get("what") == "source tables differ" \
            and detail.get("reported") == [] and not detail.get("extra"):
        return "K-exasol-create-like@C01"
    if not _raises_unsupported(detail):
        return None
    if "cells" not in _state:
        _state["cells"] = _load_cells()
    for fid, cell in _state["cells"].items():
        if cell["dialect"] == case.get("dialect") and _form(case.get("sql", "")) == cell["form"]:
            return fid
    return None


def judge(stmt, feats, dialect, res, ctx, stream):
    sql = ir.r_stmt(stmt)
    acc = accepted(stmt, sql, dialect)
    if acc is None:
        res.discard("rejected_by_dialect:" + dialect)
        return None
    if acc is False:
        res.discard("parser_divergent:" + dialect)
        return None
    exp = ir.expected_tables(stmt)
    if isinstance(stmt, ir.Noop):
        exp = ([], [])
    nt = len(exp[0]) >= 2 or nesting(stmt) >= 1 or not isinstance(stmt, ir.Insert)
    c = {"sql": sql, "dialect": dialect, "expected": {"S": exp[0], "T": exp[1]}, "features": list(feats)}
    if not isinstance(stmt, ir.Noop) and ({"scalar_subquery_select_item", "having_subquery"} & set(feats) or dialect == "clickhouse"):
        c["cores"] = {"scalar_item": ir.expected_tables(stmt, ("scalar_item",))[0], "having": ir.expected_tables(stmt, ("having",))[0],
                      "scalar_item+having": ir.expected_tables(stmt, ("scalar_item", "having"))[0],
                      "where_sub+scalar_item+having": ir.expected_tables(stmt, ("where_sub", "scalar_item", "having"))[0]}
    res.case(sql + "|" + dialect, nt, labels=[stream, "dialect:" + dialect] + [f for f in feats if not f.startswith("from:")] +
             [f for f in feats if f.startswith("from:mixed")], sample=c if len(sql) < 300 else None)
    d = compare(exp, actual_tables(sql, dialect))
    if d is None:
        return None
    fid = classify(c, d)
    if fid and fid in ctx.active:
        res.known(fid, c)
        return None
    if os.environ.get("VERIF_COLLECT"):
        res.known("UNLISTED | " + d["what"] + " | " + dialect + " | " + _form(sql) + " | " + str(d.get("exc", "")) + " | " +
                  ",".join(sorted(f for f in feats if not f.startswith(("from:", "kind:", "nest="))))[:60], c)
        return None
    return {"kind": stream, "case": c, "detail": d}


def _random_worker(payload):
    shard, n, depth, ctx = payload
    from hypothesis import strategies as st

    res = runner.Res()
    dl = all_dialects()

    def body(case, res_):
        (stmt, feats), dsel = case
        out = None
        for dialect in ["ansi"] + ([dl[dsel % len(dl)]] if dl[dsel % len(dl)] != "ansi" else []):
            v = judge(stmt, feats, dialect, res_, ctx, "random")
            out = out or v
        return out

    runner.hyp_run(st.tuples(sqlgen.stmt_tables(depth), st.integers(0, 200)), body, res,
                   seed=runner.derive_seed(ctx.seed, "C01rand", shard, depth), max_examples=n, ctx=ctx)
    return res


# ------------------------------------------------------------------------------------------ skeleton enumeration
def _sub(k, n=1):
    """small distinct subqueries over dedicated tables so that every position has its own tables"""
    t = ir.T(None, f"sq{k}")
    return ir.Select((ir.Item(ir.Col(None, "c1")),), (ir.FromGroup(t),))


def _sub_nested(k):
    inner = ir.Select((ir.Item(ir.Col(None, "c1")),), (ir.FromGroup(ir.T("s2", f"nq{k}")),))
    return ir.Select((ir.Item(ir.Col(None, "c1")),), (ir.FromGroup(ir.T(None, f"sq{k}")),), ir.InSub(ir.Col(None, "c1"), inner))


JOIN_KINDS = ["JOIN", "INNER JOIN", "LEFT JOIN", "LEFT OUTER JOIN", "RIGHT JOIN", "FULL OUTER JOIN", "CROSS JOIN"]


def from_shapes():
    """(name, builder(nest) -> (tuple of FromGroup, qualifier usable in expressions, ctes))"""
    A, B, C = ir.T(None, "ta"), ir.T(None, "tb"), ir.T("s1", "tc")
    on = lambda l, r: ("on", ir.Cmp(ir.Col(l, "k"), "=", ir.Col(r, "k")))  # noqa: E731
    shapes = [
        ("single", lambda n: ((ir.FromGroup(A),), "ta", ())),
        ("aliased", lambda n: ((ir.FromGroup(ir.T(None, "ta", "x", True)),), "x", ())),
        ("aliased_noas", lambda n: ((ir.FromGroup(ir.T(None, "ta", "x", False)),), "x", ())),
        ("schema_qualified", lambda n: ((ir.FromGroup(C),), "s1.tc", ())),
        ("comma2", lambda n: ((ir.FromGroup(A), ir.FromGroup(B)), "ta", ())),
        ("comma3", lambda n: ((ir.FromGroup(A), ir.FromGroup(ir.T(None, "tb", "y", False)), ir.FromGroup(C)), "ta", ())),
        ("chained_joins", lambda n: ((ir.FromGroup(A, (ir.Join("JOIN", B, on("ta", "tb")), ir.Join("LEFT JOIN", C, on("tb", "s1.tc")))),), "ta", ())),
        ("four_joins", lambda n: ((ir.FromGroup(A, (ir.Join("JOIN", B, on("ta", "tb")), ir.Join("LEFT JOIN", C, on("tb", "s1.tc")),
                                                   ir.Join("INNER JOIN", ir.T(None, "tj3", "j3", True), on("ta", "j3")),
                                                   ir.Join("RIGHT JOIN", ir.T("s2", "tj4"), ("using", ("k",))))),), "ta", ())),
        ("right_nested_join", lambda n: ((ir.FromGroup(A, (ir.Join("JOIN", ir.Nested(ir.FromGroup(B, (ir.Join("LEFT JOIN", C, on("tb", "s1.tc")),))), on("ta", "tb")),)),), "ta", ())),
        ("right_nested_join_derived", lambda n: ((ir.FromGroup(A, (ir.Join("LEFT JOIN", ir.Nested(ir.FromGroup(ir.T(None, "tb", "y", True), (ir.Join("JOIN", ir.Derived(_sub(8), "d2", True), on("y", "d2")),
                                                                                                                      ir.Join("JOIN", C, on("y", "s1.tc"))))), on("ta", "y")),)),), "ta", ())),
        ("nested_join_only", lambda n: ((ir.FromGroup(ir.Nested(ir.FromGroup(ir.T(None, "ta", "x", False), (ir.Join("JOIN", ir.T(None, "tb", "y", False), on("x", "y")),)))),), "x", ())),
        ("nested_join_first", lambda n: ((ir.FromGroup(ir.Nested(ir.FromGroup(A, (ir.Join("JOIN", B, on("ta", "tb")),))), (ir.Join("JOIN", C, on("ta", "s1.tc")),)),), "ta", ())),
        ("recursive_cte", lambda n: ((ir.FromGroup(ir.CteRef("q1")),), "q1", ("RECURSIVE", ("q1", ir.SetOp(("UNION ALL",), (
            ir.Select((ir.Item(ir.Col(None, "c1")),), (ir.FromGroup(ir.T(None, "sq9")),)),
            ir.Select((ir.Item(ir.Col("tr", "c1")),), (ir.FromGroup(ir.T(None, "tr"), (ir.Join("JOIN", ir.CteRef("q1"), ("on", ir.Cmp(ir.Col("tr", "k"), "=", ir.Col("q1", "c1")))),)),)))))))),
        ("recursive_cte_comma_alias", lambda n: ((ir.FromGroup(ir.CteRef("q1", "z", True)),), "z", ("RECURSIVE", ("q1", ir.SetOp(("UNION ALL",), (
            ir.Select((ir.Item(ir.Col(None, "c1")),), (ir.FromGroup(ir.T("s2", "sq9")),)),
            ir.Select((ir.Item(ir.Col("tr", "c1")),), (ir.FromGroup(ir.T(None, "tr")), ir.FromGroup(ir.CteRef("q1", "r", False))), ir.Cmp(ir.Col("tr", "k"), "=", ir.Col("r", "c1"))))))))),
        ("derived", lambda n: ((ir.FromGroup(ir.Derived(_sub_nested(7) if n else _sub(7), "d1", True)),), "d1", ())),
        ("derived_in_join", lambda n: ((ir.FromGroup(A, (ir.Join("JOIN", ir.Derived(_sub_nested(8) if n else _sub(8), "d2", False), on("ta", "d2")),)),), "ta", ())),
        ("cte_ref", lambda n: ((ir.FromGroup(ir.CteRef("q1")),), "q1", (("q1", _sub_nested(9) if n else _sub(9)),))),
        ("cte_ref_aliased", lambda n: ((ir.FromGroup(ir.CteRef("q1", "z", True)),), "z", (("q1", _sub(9)),))),
        ("cte_ref_other_case", lambda n: ((ir.FromGroup(ir.CteRef("Q1")),), "Q1", (("q1", _sub(9)),))),
        ("cte_def_other_case", lambda n: ((ir.FromGroup(ir.CteRef("q1", "z", False)),), "z", (("Q1", _sub(9)),))),
        ("chained_ctes", lambda n: ((ir.FromGroup(ir.CteRef("q2")),), "q2",
                                    (("q1", _sub(9)), ("q2", ir.Select((ir.Item(ir.Col("q1", "c1")),), (ir.FromGroup(ir.CteRef("q1")), ir.FromGroup(ir.T(None, "tq"))))),))),
        ("join_then_comma", lambda n: ((ir.FromGroup(A, (ir.Join("JOIN", B, on("ta", "tb")),)), ir.FromGroup(C)), "ta", ())),
        ("comma_then_join", lambda n: ((ir.FromGroup(C), ir.FromGroup(A, (ir.Join("LEFT JOIN", B, on("ta", "tb")),))), "ta", ())),
        ("comma_join_derived", lambda n: ((ir.FromGroup(C), ir.FromGroup(A, (ir.Join("JOIN", ir.Derived(_sub(8), "d2", True), on("ta", "d2")),))), "ta", ())),
        ("bracketed_derived_join", lambda n: ((ir.FromGroup(ir.Derived(_sub(7), "d1", True), (ir.Join("JOIN", ir.Derived(_sub(8), "d2", True), on("d1", "d2")),)),), "d1", ())),
    ]
    # tables that share their bare name (different schemas) and tables that share an alias with a table of another query block
    shapes += [
        ("same_barename_two_schemas_join", lambda n: ((ir.FromGroup(ir.T("s1", "ta"), (ir.Join("JOIN", ir.T("s2", "ta"), on("s1.ta", "s2.ta")),)),), "s1.ta", ())),
        ("same_barename_two_schemas_comma", lambda n: ((ir.FromGroup(ir.T("s1", "ta")), ir.FromGroup(ir.T("s2", "ta")), ir.FromGroup(ir.T(None, "ta", "a0", True))), "s1.ta", ())),
        ("same_alias_as_subquery_table", lambda n: ((ir.FromGroup(ir.T(None, "ta", "x", True), (ir.Join("JOIN", ir.Derived(
            ir.Select((ir.Item(ir.Col("x", "c1")), ir.Item(ir.Col("x", "k"))), (ir.FromGroup(ir.T("s1", "tb", "x", True)),)), "d2", True), on("x", "d2")),)),), "x", ())),
    ]
    # derived tables / CTEs that read no table at all (constants): the statement then has no source, its target is still written
    const = ir.Select((ir.Item(ir.Lit("1"), "c1"), ir.Item(ir.Lit("2"), "k")), ())
    shapes += [
        ("derived_without_table", lambda n: ((ir.FromGroup(ir.Derived(const, "d1", True)),), "d1", ())),
        ("derived_without_table_joined", lambda n: ((ir.FromGroup(A, (ir.Join("JOIN", ir.Derived(const, "d2", True), on("ta", "d2")),)),), "d2", ())),
        ("cte_without_table", lambda n: ((ir.FromGroup(ir.CteRef("q1")),), "q1", (("q1", const),))),
        ("two_derived_without_table", lambda n: ((ir.FromGroup(ir.Derived(const, "d1", True)), ir.FromGroup(ir.Derived(ir.Select((ir.Item(ir.Lit("3"), "k"),), ()), "d2", False))), "d1", ())),
    ]
    for jk in JOIN_KINDS:
        cond = None if jk == "CROSS JOIN" else on("ta", "tb")
        shapes.append(("join:" + jk, lambda n, jk=jk, cond=cond: ((ir.FromGroup(A, (ir.Join(jk, B, cond),)),), "ta", ())))
    shapes.append(("join_using", lambda n: ((ir.FromGroup(A, (ir.Join("JOIN", B, ("using", ("k",))),)),), "ta", ())))
    return shapes


def _al(q):
    return q if q.isidentifier() else "x"


def subquery_positions():
    """(name, builder(qual, nest) -> dict(where=?, extra_items=?, having=?, group_by=?, setop=?))"""
    c = lambda q: ir.Col(q, "c1")  # noqa: E731
    S = lambda k, n: _sub_nested(k) if n else _sub(k)  # noqa: E731
    return [
        ("none", lambda q, n: {}),
        ("where_in", lambda q, n: {"where": ir.InSub(c(q), S(1, n))}),
        ("where_not_in", lambda q, n: {"where": ir.InSub(c(q), S(1, n), True)}),
        ("where_exists", lambda q, n: {"where": ir.Exists(S(1, n))}),
        ("where_not_exists", lambda q, n: {"where": ir.Not(ir.Exists(S(1, n)))}),
        ("where_cmp", lambda q, n: {"where": ir.CmpSub(c(q), "=", S(1, n))}),
        ("where_cmp_subqueries_both_sides", lambda q, n: {"where": ir.CmpSub(ir.ScalarSub(S(1, n)), ">", S(2, n))}),
        ("where_and_two_comparisons", lambda q, n: {"where": ir.BoolOp("AND", ir.CmpSub(c(q), "<", S(1, n)), ir.CmpSub(ir.ScalarSub(S(2, n)), "=", S(3, n)))}),
        ("where_and", lambda q, n: {"where": ir.BoolOp("AND", ir.Cmp(c(q), ">", ir.Lit("0")), ir.InSub(c(q), S(1, n)))}),
        ("where_or", lambda q, n: {"where": ir.BoolOp("OR", ir.InSub(c(q), S(1, n)), ir.Cmp(c(q), ">", ir.Lit("0")))}),
        ("where_paren", lambda q, n: {"where": ir.PParen(ir.BoolOp("AND", ir.InSub(c(q), S(1, n)), ir.Cmp(c(q), ">", ir.Lit("0"))))}),
        ("where_two_subqueries", lambda q, n: {"where": ir.BoolOp("AND", ir.InSub(c(q), S(1, n)), ir.Exists(S(2, n)))}),
        ("where_three_subqueries", lambda q, n: {"where": ir.BoolOp("OR", ir.CmpSub(c(q), ">", S(1, n)),
                                                                    ir.BoolOp("AND", ir.InSub(c(q), S(2, n), True), ir.Exists(S(3, n))))}),
        ("case_arm_subqueries", lambda q, n: {"extra_items": (ir.Item(ir.Case(((ir.CmpSub(c(q), "=", S(1, n)), ir.ScalarSub(S(2, n))),
                                                                                (ir.Cmp(c(q), ">", ir.Lit("5")), ir.ScalarSub(S(3, n)))), None), "cs1"),)}),
        ("function_arg_subquery", lambda q, n: {"extra_items": (ir.Item(ir.Func("coalesce", (ir.ScalarSub(S(1, n)), ir.Lit("0"))), "fn1"),)}),
        ("union_branches", lambda q, n: {"setop": [S(1, n), S(2, n)]}),
        # the branches reuse the first branch's qualifier as the alias of OTHER tables (an alias is local to its query block)
        ("union_branches_same_alias", lambda q, n: {"setop": [ir.Select((ir.Item(ir.Col(_al(q), "c1")),), (ir.FromGroup(ir.T(None, "tu1", _al(q), True)),)),
                                                               ir.Select((ir.Item(ir.Col(_al(q), "c1")),), (ir.FromGroup(ir.T("s2", "tu2", _al(q), False)),))]}),
        ("where_in_same_alias", lambda q, n: {"where": ir.InSub(c(q), ir.Select((ir.Item(ir.Col(_al(q), "c1")),), (ir.FromGroup(ir.T("s1", "tw1", _al(q), True)),)))}),
        ("scalar_subquery_select_item", lambda q, n: {"extra_items": (ir.Item(ir.ScalarSub(S(1, n)), "sq1"),)}),
        ("having_subquery", lambda q, n: {"group_by": (c(q),), "having": ir.CmpSub(ir.Func("count", (ir.Lit("1"),)), ">", S(1, n))}),
    ]


def statement_kinds():
    tgt = ir.T(None, "tgt")
    tq = ir.T("s9", "tgt")
    kinds = [
        ("bare", lambda q, ctes: ir.Bare(_with(ctes, q) if ctes else q)),
        ("insert_into", lambda q, ctes: ir.Insert(tgt, None, _with(ctes, q) if ctes else q, "INSERT INTO", False)),
        ("insert_into_qualified_paren", lambda q, ctes: ir.Insert(tq, None, _with(ctes, q) if ctes else q, "INSERT INTO", not ctes)),
        ("insert_into_table", lambda q, ctes: ir.Insert(tgt, None, _with(ctes, q) if ctes else q, "INSERT INTO TABLE", False)),
        ("insert_overwrite_table", lambda q, ctes: ir.Insert(tgt, None, _with(ctes, q) if ctes else q, "INSERT OVERWRITE TABLE", False)),
        ("insert_overwrite", lambda q, ctes: ir.Insert(tq, None, _with(ctes, q) if ctes else q, "INSERT OVERWRITE", False)),
        ("ctas", lambda q, ctes: ir.Ctas(tgt, _with(ctes, q) if ctes else q, "CREATE TABLE", False)),
        ("ctas_if_not_exists_paren", lambda q, ctes: ir.Ctas(tq, _with(ctes, q) if ctes else q, "CREATE TABLE IF NOT EXISTS", not ctes)),
        ("create_or_replace_table", lambda q, ctes: ir.Ctas(tgt, _with(ctes, q) if ctes else q, "CREATE OR REPLACE TABLE", False)),
        ("create_view", lambda q, ctes: ir.CreateView(tgt, None, _with(ctes, q) if ctes else q, "CREATE VIEW", False)),
        ("create_or_replace_view", lambda q, ctes: ir.CreateView(tq, None, _with(ctes, q) if ctes else q, "CREATE OR REPLACE VIEW", False)),
        ("cte_insert", lambda q, ctes: ir.CteInsert(ctes, ir.Insert(tgt, None, q, "INSERT INTO", False)) if ctes else None),
    ]
    return kinds


def _with(ctes, q):
    if ctes and ctes[0] == "RECURSIVE":
        return ir.With(tuple(ctes[1:]), q, True)
    return ir.With(tuple(ctes), q)


def skeletons(nest_levels):
    for (kname, kb), (fname, fb), (pname, pb), n in itertools.product(statement_kinds(), from_shapes(), subquery_positions(), nest_levels):
        groups, qual, ctes = fb(n)
        if ctes and ctes[0] == "RECURSIVE" and kname == "cte_insert":
            continue
        extra = pb(qual, n)
        items = (ir.Item(ir.Col(qual, "c1")),) + tuple(extra.get("extra_items", ()))
        q = ir.Select(items, groups, extra.get("where"), False, tuple(extra.get("group_by", ())), extra.get("having"))
        if "setop" in extra:
            q = ir.SetOp(("UNION ALL",) * len(extra["setop"]), (q,) + tuple(extra["setop"]))
        stmt = kb(q, tuple(ctes))
        if stmt is None:
            continue
        feats = ["kind:" + kname, "from:" + fname, pname, f"nest={n}"]
        yield stmt, feats
    # statement kinds with their own FROM forms
    A, B = ir.T(None, "ta"), ir.T("s1", "tb", "y", True)
    tgt = ir.T(None, "tgt")
    on = ir.Cmp(ir.Col("tgt", "k"), "=", ir.Col("ta", "k"))
    extra_stmts = [
        ("update_from", ir.Update(tgt, (("c1", ir.Col("ta", "c1")),), (ir.FromGroup(A),), ir.Cmp(ir.Col("ta", "k"), "=", ir.Col("tgt", "k")))),
        ("update_from_comma", ir.Update(tgt, (("c1", ir.Col("ta", "c1")), ("c2", ir.Col("y", "c2"))), (ir.FromGroup(A), ir.FromGroup(B)), None)),
        ("update_from_join", ir.Update(tgt, (("c1", ir.Col("ta", "c1")),), (ir.FromGroup(A, (ir.Join("JOIN", B, ("on", ir.Cmp(ir.Col("ta", "k"), "=", ir.Col("y", "k")))),)),), None)),
        ("update_from_derived", ir.Update(tgt, (("c1", ir.Col("d1", "c1")),), (ir.FromGroup(ir.Derived(_sub_nested(1), "d1", True)),), None)),
        ("update_aliased_target", ir.Update(ir.T(None, "tgt", "t", True), (("c1", ir.Col("ta", "c1")),), (ir.FromGroup(A),), None)),
        # UPDATE without FROM (every dialect has it): plain, with an aliased target (mysql-family grammars wrap an aliased target in a from_expression)
        ("update_plain", ir.Update(tgt, (("c1", ir.Lit("1")),), (), None)),
        ("update_plain_where", ir.Update(ir.T("s9", "tgt"), (("c1", ir.Col(None, "c2")),), (), ir.Cmp(ir.Col(None, "k"), "=", ir.Lit("1")))),
        ("update_plain_aliased", ir.Update(ir.T(None, "tgt", "t", False), (("c1", ir.Lit("1")),), (), ir.Cmp(ir.Col("t", "k"), "=", ir.Lit("1")))),
        ("update_plain_aliased_as", ir.Update(ir.T("s9", "tgt", "t", True), (("c1", ir.Col("t", "c2")),), (), None)),
        ("merge_table", ir.Merge(tgt, A, on, (("c1", ir.Col("ta", "c1")),), (("k", ir.Col("ta", "k")),))),
        ("merge_aliased", ir.Merge(ir.T("s9", "tgt", "t", True), ir.T(None, "ta", "s", True), ir.Cmp(ir.Col("t", "k"), "=", ir.Col("s", "k")), (("c1", ir.Col("s", "c1")),), ())),
        ("merge_subquery", ir.Merge(tgt, ir.Derived(_sub_nested(1), "s", True), ir.Cmp(ir.Col("tgt", "k"), "=", ir.Col("s", "k")), (), (("k", ir.Col("s", "c1")),))),
        ("merge_subquery_join", ir.Merge(tgt, ir.Derived(ir.Select((ir.Item(ir.Col("ta", "c1")),), (ir.FromGroup(A, (ir.Join("JOIN", B, ("using", ("k",))),)),)), "s", False),
                                         ir.Cmp(ir.Col("tgt", "k"), "=", ir.Col("s", "k")), (("c1", ir.Col("s", "c1")),), ())),
        ("create_like", ir.CreateLike(tgt, A, "LIKE")), ("create_clone", ir.CreateLike(tgt, ir.T("s1", "tb"), "CLONE")),
        ("select_into", ir.SelectInto(tgt, ir.Select((ir.Item(ir.Col("ta", "c1")),), (ir.FromGroup(A, (ir.Join("JOIN", B, ("on", ir.Cmp(ir.Col("ta", "k"), "=", ir.Col("y", "k")))),)),)))),
        ("insert_values", ir.InsertValues(ir.T("s9", "tgt"), 2)),
    ]
    for name, st_ in extra_stmts:
        yield st_, ["kind:" + name]
    for text in sqlgen.NOOPS:
        yield ir.Noop(text), ["kind:Noop", "noop:" + text.split()[0]]


def dialect_specific_cases():
    """statement kinds only some dialects have (COPY, directory targets, path sources, mysql UPDATE JOIN, partition exchange): text templates whose expected
    tables follow from the statement's meaning; the query-bearing ones are combined with every FROM shape of the skeleton"""
    out = []
    for tq, tp in (("tgt", "<default>.tgt"), ("s1.tgt", "s1.tgt"), ("TGT", "<default>.tgt")):
        for path in ("s3://bucket/p1", "/tmp/x.csv"):
            out.append(("snowflake", f"COPY INTO {tq} FROM '{path}'", [path], [tp], ["kind:copy"]))
            out.append(("postgres", f"COPY {tq} FROM '{path}'", [path], [tp], ["kind:copy"]))
            out.append(("redshift", f"COPY {tq} FROM '{path}' IAM_ROLE 'arn:aws:iam::1:role/r'", [path], [tp], ["kind:copy"]))
    out.append(("snowflake", "COPY INTO s1.tgt FROM @stage1/path FILE_FORMAT = (TYPE = CSV)", ["@stage1/path"], ["s1.tgt"], ["kind:copy"]))
    for d in ("sparksql", "databricks"):
        out.append((d, "SELECT * FROM parquet.`/data/x`", ["/data/x"], [], ["kind:path_source"]))
        out.append((d, "INSERT INTO ta SELECT * FROM csv.`s3://b/x.csv`", ["s3://b/x.csv"], ["<default>.ta"], ["kind:path_source"]))
        out.append((d, "INSERT INTO s1.tz SELECT x.c1 FROM json.`/data/j` x JOIN tb ON x.k = tb.k", ["/data/j", "<default>.tb"], ["s1.tz"], ["kind:path_source"]))
    out.append(("mysql", "UPDATE ta a JOIN tb b ON a.k = b.k SET a.c = b.c", ["<default>.tb"], ["<default>.ta"], ["kind:update_join"]))
    out.append(("mysql", "UPDATE s1.ta JOIN tb ON s1.ta.k = tb.k JOIN s2.tc c ON c.k = tb.k SET s1.ta.c = c.c", ["<default>.tb", "s2.tc"], ["s1.ta"], ["kind:update_join"]))
    out.append(("hive", "ALTER TABLE ta EXCHANGE PARTITION (ds='1') WITH TABLE s1.tb", ["s1.tb"], ["<default>.ta"], ["kind:exchange_partition"]))
    out.append(("vertica", "select swap_partitions_between_tables('staging', 'min', 'max', 'target')", ["<default>.staging"], ["<default>.target"], ["kind:swap_partitions"]))
    out.append(("duckdb", "CREATE TABLE tgt AS FROM ta", ["<default>.ta"], ["<default>.tgt"], ["kind:from_first"]))
    out.append(("bigquery", "INSERT tgt SELECT c FROM ta JOIN s1.tb USING (k)", ["<default>.ta", "s1.tb"], ["<default>.tgt"], ["kind:insert_without_into"]))
    out.append(("sparksql", "CREATE TABLE tgt USING parquet LOCATION '/x' AS SELECT * FROM ta, tb", ["<default>.ta", "<default>.tb"], ["<default>.tgt"], ["kind:ctas_using"]))
    # quoted multi-part names (lower-case: case folding of quoted names is C16's K-quoted-case): a quoted part names the same table as the bare part
    out.append(("tsql", "INSERT INTO [db].[dbo].[tgt] SELECT a.c1 FROM [db].[dbo].[a] AS a JOIN [s1].[b] ON a.k = [s1].[b].k", ["db.dbo.a", "s1.b"], ["db.dbo.tgt"], ["kind:quoted_multipart"]))
    out.append(("ansi", 'INSERT INTO "db"."sch"."tgt" SELECT c1 FROM "db"."sch"."t" JOIN db2."sch".u USING (k)', ["db.sch.t", "db2.sch.u"], ["db.sch.tgt"], ["kind:quoted_multipart"]))
    out.append(("mysql", "INSERT INTO `db`.`tgt` SELECT c1 FROM `db`.`t`, `u`", ["<default>.u", "db.t"], ["db.tgt"], ["kind:quoted_multipart"]))
    out.append(("bigquery", "INSERT INTO `proj.ds.tgt` SELECT c1 FROM `proj.ds.t` JOIN proj.ds.u USING (k)", ["proj.ds.t", "proj.ds.u"], ["proj.ds.tgt"], ["kind:quoted_multipart"]))
    out.append(("snowflake", 'CREATE TABLE db.sch.tgt AS SELECT c1 FROM "db"."sch"."t", db."sch".u', ["db.sch.t", "db.sch.u"], ["db.sch.tgt"], ["kind:quoted_multipart"]))
    out.append(("postgres", 'MERGE INTO "db"."sch"."tgt" t USING "db"."sch"."src" s ON t.k = s.k WHEN MATCHED THEN UPDATE SET c1 = s.c1', ["db.sch.src"], ["db.sch.tgt"], ["kind:quoted_multipart"]))
    # directory targets over every FROM shape
    for fname, fb in from_shapes():
        groups, qual, ctes = fb(0)
        q = ir.Select((ir.Item(ir.Col(qual, "c1")),), groups)
        if ctes:
            q = _with(ctes, q)
        S = ir.expected_tables(ir.Bare(q))[0]
        out.append(("sparksql", "INSERT OVERWRITE DIRECTORY 'hdfs://x/y' " + ir.r_query(q), S, ["hdfs://x/y"], ["kind:overwrite_directory", "from:" + fname]))
        out.append(("hive", "INSERT OVERWRITE LOCAL DIRECTORY '/tmp/out' " + ir.r_query(q), S, ["/tmp/out"], ["kind:overwrite_directory", "from:" + fname]))
    return out


STYLES = [
    ("ctas", "CREATE TEMPORARY TABLE"), ("ctas", "CREATE TEMP TABLE"), ("ctas", "CREATE TRANSIENT TABLE"), ("ctas", "CREATE GLOBAL TEMPORARY TABLE"),
    ("ctas", "CREATE UNLOGGED TABLE"), ("ctas", "CREATE VOLATILE TABLE"), ("ctas", "CREATE OR REPLACE TEMPORARY TABLE"), ("ctas", "CREATE EXTERNAL TABLE"),
    ("ctas", "CREATE MULTISET TABLE"), ("ctas", "CREATE TABLE IF NOT EXISTS"),
    ("view", "CREATE MATERIALIZED VIEW"), ("view", "CREATE TEMPORARY VIEW"), ("view", "CREATE OR REPLACE TEMPORARY VIEW"), ("view", "CREATE TEMP VIEW"),
    ("view", "CREATE VIEW IF NOT EXISTS"), ("view", "CREATE OR REPLACE MATERIALIZED VIEW"), ("view", "CREATE SECURE VIEW"), ("view", "CREATE OR ALTER VIEW"),
    ("view", "CREATE GLOBAL TEMPORARY VIEW"), ("view", "ALTER VIEW"),
    ("insert", "REPLACE INTO"), ("insert", "INSERT IGNORE INTO"), ("insert", "INSERT"), ("insert", "INSERT OR REPLACE INTO"), ("insert", "INSERT OVERWRITE INTO"),
    ("insert", "INSERT INTO TABLE"), ("insert", "INSERT OVERWRITE TABLE"),
]
STYLE_FROM = ("single", "chained_joins", "comma2", "derived", "cte_ref", "right_nested_join")
STYLE_POS = ("none", "where_in", "union_branches")


def style_statements():
    """statement spellings that only some dialects have (TEMPORARY / TRANSIENT / MATERIALIZED / REPLACE INTO / INSERT without INTO ...) over six FROM
    shapes x three subquery positions; a spelling the library does not support (UnsupportedStatementException) is outside the property's
    'supported data-moving statement' and is discarded and counted, a returned result is judged like any other"""
    shapes = {n: b for n, b in from_shapes()}
    poss = {n: b for n, b in subquery_positions()}
    for kind, style in STYLES:
        for fname in STYLE_FROM:
            if fname not in shapes:
                continue
            for pname in STYLE_POS:
                if pname not in poss:
                    continue
                groups, qual, ctes = shapes[fname](0)
                extra = poss[pname](qual, 0)
                q = ir.Select((ir.Item(ir.Col(qual, "c1")),) + tuple(extra.get("extra_items", ())), groups, extra.get("where"))
                if "setop" in extra:
                    q = ir.SetOp(("UNION ALL",) * len(extra["setop"]), (q,) + tuple(extra["setop"]))
                if ctes:
                    q = _with(ctes, q)
                tgt = ir.T("s9", "tgt")
                if kind == "ctas":
                    stmt = ir.Ctas(tgt, q, style, False)
                elif kind == "view":
                    stmt = ir.CreateView(tgt, None, q, style, False)
                else:
                    stmt = ir.Insert(tgt, None, q, style, False)
                yield stmt, ["style:" + style, "from:" + fname, pname]


def _style_worker(payload):
    shard, nshards, ctx = payload
    res = runner.Res()
    dl = all_dialects()
    for idx, (stmt, feats) in enumerate(style_statements()):
        if idx % nshards != shard:
            continue
        if ctx.quick and feats[1] != "from:single" and (idx // nshards + ctx.seed) % 3:
            continue  # quick: every style over the single-table shape, a seeded third of the rest
        if ctx.out_of_time():
            res.budget_exhausted = True
            break
        for dialect in dl:
            v = judge(stmt, feats, dialect, res, ctx, "style")
            if v is None:
                continue
            if _raises_unsupported(v["detail"]):
                res.discard("style_not_supported_by_library:" + dialect + ":" + feats[0][6:])
                continue
            if len(res.violations) < 4:
                res.violation(v["kind"], v["case"], v["detail"])
    return res


def blind_position_probes():
    """subquery positions outside the skeleton product, as text templates: (finding tag, dialect, sql, full sources, target, core = the sources that do
    not sit in the probed position).  On the pinned tree every tag is a listed finding (the tables in that position are not reported); a probe whose
    result is exact is simply a passing case, and any other deviation is a violation"""
    D = "<default>."
    P = []

    def add(tag, dialect, sql, full, tgt, core):
        P.append((tag, dialect, sql, sorted(full), [tgt] if tgt else [], sorted(core)))

    t = D + "tgt"
    add("nested-setop-paren", "ansi", "INSERT INTO tgt SELECT c1 FROM ta UNION (SELECT c1 FROM tb UNION SELECT c1 FROM tc)", [D + "ta", D + "tb", D + "tc"], t, [D + "ta"])
    add("nested-setop-paren", "ansi", "CREATE TABLE tgt AS (SELECT c1 FROM ta UNION SELECT c1 FROM tb) UNION ALL SELECT c1 FROM tc", [D + "ta", D + "tb", D + "tc"], t, [D + "tc"])
    add("nested-setop-paren", "ansi", "SELECT c1 FROM ta EXCEPT (SELECT c1 FROM tb INTERSECT SELECT c1 FROM s1.tc)", [D + "ta", D + "tb", "s1.tc"], None, [D + "ta"])
    add("nested-setop-paren", "postgres", "INSERT INTO tgt (SELECT c1 FROM ta UNION ALL (SELECT c1 FROM tb UNION ALL SELECT c1 FROM tc))", [D + "ta", D + "tb", D + "tc"], t, [D + "ta"])
    add("lateral-subquery", "ansi", "INSERT INTO tgt SELECT c1 FROM ta t1 JOIN LATERAL (SELECT c2 FROM tb WHERE tb.k = t1.k) l ON TRUE", [D + "ta", D + "tb"], t, [D + "ta"])
    add("lateral-subquery", "ansi", "INSERT INTO tgt SELECT c1 FROM ta, LATERAL (SELECT c2 FROM s1.tb WHERE s1.tb.k = ta.k) l", [D + "ta", "s1.tb"], t, [D + "ta"])
    add("lateral-subquery", "postgres", "INSERT INTO tgt SELECT c1 FROM ta t1 LEFT JOIN LATERAL (SELECT c2 FROM tb WHERE tb.k = t1.k) l ON TRUE", [D + "ta", D + "tb"], t, [D + "ta"])
    add("join-on-subquery", "ansi", "INSERT INTO tgt SELECT ta.c1 FROM ta JOIN tb ON ta.k = (SELECT max(k) FROM tc)", [D + "ta", D + "tb", D + "tc"], t, [D + "ta", D + "tb"])
    add("join-on-subquery", "ansi", "INSERT INTO tgt SELECT ta.c1 FROM ta LEFT JOIN tb ON tb.k IN (SELECT k FROM s1.tc)", [D + "ta", D + "tb", "s1.tc"], t, [D + "ta", D + "tb"])
    add("where-quantified-subquery", "ansi", "INSERT INTO tgt SELECT c1 FROM ta WHERE c1 > ALL (SELECT c1 FROM tb)", [D + "ta", D + "tb"], t, [D + "ta"])
    add("where-quantified-subquery", "postgres", "INSERT INTO tgt SELECT c1 FROM ta WHERE c1 < ANY (SELECT c1 FROM s1.tc)", [D + "ta", "s1.tc"], t, [D + "ta"])
    add("where-expression-subquery", "ansi", "INSERT INTO tgt SELECT c1 FROM ta WHERE c1 = coalesce((SELECT max(c1) FROM tb), 0)", [D + "ta", D + "tb"], t, [D + "ta"])
    add("where-expression-subquery", "ansi", "INSERT INTO tgt SELECT c1 FROM ta WHERE CASE WHEN c1 IN (SELECT c1 FROM tb) THEN 1 ELSE 0 END = 1", [D + "ta", D + "tb"], t, [D + "ta"])
    add("update-merge-subquery", "ansi", "UPDATE tgt SET c1 = (SELECT max(c1) FROM ta)", [D + "ta"], t, [])
    add("update-merge-subquery", "ansi", "UPDATE tgt SET c1 = 1 WHERE k IN (SELECT k FROM tb)", [D + "tb"], t, [])
    add("update-merge-subquery", "ansi", "UPDATE tgt SET c1 = ta.c1 FROM ta WHERE ta.k IN (SELECT k FROM tb)", [D + "ta", D + "tb"], t, [D + "ta"])
    add("update-merge-subquery", "postgres", "UPDATE tgt SET (c1, c2) = (SELECT c1, c2 FROM ta WHERE ta.k = tgt.k)", [D + "ta"], t, [])
    add("update-merge-subquery", "ansi", "MERGE INTO tgt USING ta ON tgt.k = ta.k AND ta.k IN (SELECT k FROM tb) WHEN MATCHED THEN UPDATE SET c1 = ta.c1", [D + "ta", D + "tb"], t, [D + "ta"])
    add("update-merge-subquery", "ansi", "MERGE INTO tgt USING ta ON tgt.k = ta.k WHEN MATCHED THEN UPDATE SET c1 = (SELECT max(c1) FROM tb)", [D + "ta", D + "tb"], t, [D + "ta"])
    add("teradata-update-from", "teradata", "UPDATE tgt FROM ta SET c1 = ta.c1 WHERE tgt.k = ta.k", [D + "ta"], t, [])
    add("teradata-update-from", "teradata", "UPDATE tgt FROM ta, s1.tb SET c1 = ta.c1, c2 = s1.tb.c2 WHERE tgt.k = ta.k", [D + "ta", "s1.tb"], t, [])
    add("order-by-subquery", "ansi", "INSERT INTO tgt SELECT c1 FROM ta ORDER BY (SELECT max(c1) FROM tb)", [D + "ta", D + "tb"], t, [D + "ta"])
    # positions of the same families that ARE seen (controls: they must stay exact)
    add("control", "ansi", "INSERT INTO tgt SELECT c1 FROM ta UNION ALL (SELECT c1 FROM tb)", [D + "ta", D + "tb"], t, [D + "ta", D + "tb"])
    add("control", "ansi", "INSERT INTO tgt SELECT c1 FROM ta WHERE (c1, c2) IN (SELECT c1, c2 FROM tb)", [D + "ta", D + "tb"], t, [D + "ta", D + "tb"])
    add("control", "ansi", "INSERT INTO tgt SELECT c1 FROM ta WHERE c1 IN (SELECT c1 FROM tb UNION SELECT c1 FROM tc)", [D + "ta", D + "tb", D + "tc"], t, [D + "ta", D + "tb", D + "tc"])
    add("control", "ansi", "INSERT INTO tgt SELECT c1 FROM ta WHERE NOT (c1 IN (SELECT c1 FROM tb))", [D + "ta", D + "tb"], t, [D + "ta", D + "tb"])
    add("control", "ansi", "WITH q AS (SELECT c1 FROM ta) SELECT c1 FROM q WHERE c1 IN (WITH r AS (SELECT c1 FROM tb) SELECT c1 FROM r)", [D + "ta", D + "tb"], None, [D + "ta", D + "tb"])
    add("control", "ansi", "INSERT INTO tgt SELECT c1 FROM (WITH q AS (SELECT c1 FROM ta) SELECT c1 FROM q) d", [D + "ta"], t, [D + "ta"])
    add("control", "ansi", "INSERT INTO tgt SELECT c1 FROM ((SELECT c1 FROM ta)) d", [D + "ta"], t, [D + "ta"])
    add("control", "ansi", "INSERT INTO tgt SELECT c1 FROM (SELECT c1 FROM ta) AS d (c1)", [D + "ta"], t, [D + "ta"])
    add("control", "ansi", "INSERT INTO tgt SELECT c1 FROM (VALUES (1), (2)) AS v (c1)", [], t, [])
    add("control", "ansi", "INSERT INTO tgt SELECT ta.c1 FROM ta FULL OUTER JOIN tb USING (k) CROSS JOIN tc", [D + "ta", D + "tb", D + "tc"], t, [D + "ta", D + "tb", D + "tc"])
    add("control", "ansi", "CREATE VIEW tgt AS WITH q AS (SELECT c1 FROM ta), r AS (SELECT c1 FROM q JOIN tb USING (c1)) SELECT * FROM r", [D + "ta", D + "tb"], t, [D + "ta", D + "tb"])
    return P


def _probe_worker(payload):
    shard, nshards, ctx = payload
    from vlib import rewrite

    res = runner.Res()
    for idx, (tag, dialect, sql, full, T, core) in enumerate(blind_position_probes()):
        if idx % nshards != shard:
            continue
        if not rewrite.parses(sql, dialect):
            res.discard("rejected_by_dialect:" + dialect)
            continue
        c = {"sql": sql, "dialect": dialect, "expected": {"S": full, "T": T}, "features": ["probe:" + tag], "cores": {"probe": core}}
        res.case(sql + "|" + dialect, True, labels=["position_probe", "probe:" + tag], sample=c)
        d = compare((full, T), actual_tables(sql, dialect))
        if d is None:
            continue
        fid = classify(c, d)
        if fid and fid in ctx.active:
            res.known(fid, c)
        elif os.environ.get("VERIF_COLLECT"):
            res.known("UNLISTED probe | " + tag + " | " + d["what"], c)
        elif len(res.violations) < 4:
            res.violation("position_probe", c, d)
    return res


def _specific_worker(payload):
    shard, nshards, ctx = payload
    from vlib import rewrite

    res = runner.Res()
    for idx, (dialect, sql, S, T, feats) in enumerate(dialect_specific_cases()):
        if idx % nshards != shard:
            continue
        if not rewrite.parses(sql, dialect):
            res.discard("rejected_by_dialect:" + dialect)
            continue
        c = {"sql": sql, "dialect": dialect, "expected": {"S": sorted(S), "T": sorted(T)}, "features": feats}
        res.case(sql + "|" + dialect, True, labels=["dialect_specific", "dialect:" + dialect] + feats[:1], sample=c)
        d = compare((sorted(S), sorted(T)), actual_tables(sql, dialect))
        if d is None:
            continue
        fid = classify(c, d)
        if fid and fid in ctx.active:
            res.known(fid, c)
        elif os.environ.get("VERIF_COLLECT"):
            res.known("UNLISTED specific | " + d["what"] + " | " + dialect + " | " + ",".join(feats), c)
        elif len(res.violations) < 4:
            res.violation("dialect_specific", c, d)
    return res


def _skeleton_worker(payload):
    shard, nshards, nest_levels, ctx = payload
    res = runner.Res()
    dl = all_dialects()
    for idx, (stmt, feats) in enumerate(skeletons(nest_levels)):
        if idx % nshards != shard:
            continue
        if ctx.quick and len(feats) > 2 and (idx // nshards + ctx.seed) % 8:  # quick: a seeded eighth of the product (all extra kinds)
            continue
        if {"scalar_subquery_select_item", "having_subquery"} & set(feats) and not any(f in ("from:single", "from:comma2") for f in feats):
            continue  # finding probes: two FROM shapes are enough
        if ctx.out_of_time():
            res.budget_exhausted = True
            break
        if ctx.quick:
            # ansi always; plus 2 dialects chosen by a seeded rotation so that repeated runs cover them all; statement styles that
            # only some dialects have are always tried under one of those
            pick = ["ansi", dl[(idx + ctx.seed) % len(dl)], dl[(idx * 7 + 3 + ctx.seed) % len(dl)]]
            if any(f in ("kind:insert_overwrite", "kind:insert_overwrite_table", "kind:insert_into_table") for f in feats):
                pick.append(["sparksql", "hive", "databricks"][(idx + ctx.seed) % 3])
            if any(f in ("kind:create_clone", "kind:create_or_replace_table") for f in feats):
                pick.append(["snowflake", "bigquery"][(idx + ctx.seed) % 2])
            if any(f.startswith("kind:update_plain") for f in feats):
                pick.append(["mysql", "mariadb", "doris", "starrocks"][(idx + ctx.seed) % 4])
            if any(f == "kind:select_into" for f in feats):
                pick.append(["postgres", "tsql"][(idx + ctx.seed) % 2])
        else:
            pick = dl
        for dialect in dict.fromkeys(pick):
            v = judge(stmt, feats, dialect, res, ctx, "skeleton")
            if v is not None and len(res.violations) < 4:
                res.violation(v["kind"], v["case"], v["detail"])
    return res


def replay(case):
    exp = (case["expected"]["S"], case["expected"]["T"])
    d = compare(exp, actual_tables(case["sql"], case["dialect"]))
    return None if d is None else {"kind": "replay", "case": case, "detail": d}


def run(ctx):
    nshards = runner.NCPU * 2
    res = runner.merge_all(runner.pmap(_skeleton_worker, [(i, nshards, (0, 1), ctx) for i in range(nshards)]))
    res.merge(runner.merge_all(runner.pmap(_specific_worker, [(i, nshards, ctx) for i in range(nshards)])))
    res.merge(runner.merge_all(runner.pmap(_probe_worker, [(i, nshards, ctx) for i in range(nshards)])))
    res.merge(runner.merge_all(runner.pmap(_style_worker, [(i, nshards, ctx) for i in range(nshards)])))
    res.extra["skeletons"] = sum(1 for _ in skeletons((0, 1)))
    n = ctx.n(1600, 24000)
    payloads = [(i, n // runner.NCPU, 2, ctx) for i in range(runner.NCPU)]
    if not ctx.quick:
        payloads += [(i, n // runner.NCPU // 4, 3, ctx) for i in range(runner.NCPU)]
    res.merge(runner.merge_all(runner.pmap(_random_worker, payloads)))
    return res
