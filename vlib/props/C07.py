"""C07 - lineage is invariant under layout, comments and letter case.

Metamorphic: original text vs rewritten text (vlib/rewrite.py: whitespace, inserted comments, case of unquoted words,
quoting of lower-case naked identifiers, trailing semicolons - sites found with sqlfluff's lexer / parse tree) must
give equal tables and equal (source, target) column pairs; an expression display name is compared after removing
quotes, whitespace and comments and case-folding (the property lets it follow the text).
quick   : Hypothesis - corpus statement x 1-8 random edits (+ optional trailer); shrinks to a single-site rewrite
thorough: additionally EVERY single-site rewrite of every corpus statement, and all-sites-at-once per rewrite kind
"""
from __future__ import annotations

import os

import re

from vlib import corpus, observe, rewrite, runner

ID = "C07"
LEVEL = "exploration"
RULE = ("case = (corpus statement in its own dialect [harvested test-suite SQL + bundled TPC-DS] or generator statement [seeded stride through the C01 and C02 skeleton products under ansi, C01 dialect-specific statements in their dialect], set of token-level rewrites: whitespace "
        "replacement, comment insertion (block / line, containing ; keywords quotes), case change of an unquoted word, quoting of a lower-case "
        "naked identifier, trailing-semicolon variant). quick: 1-8 random edits per case; thorough: every single-site edit + all sites at once. "
        "Non-trivial = rewritten text differs from the original in at least one token inside the statement (not only the trailer) and "
        "the original analyses without error; distinct = distinct (original, rewritten text).")
ASSUMPTIONS = [
    "a rewritten text of more than 10000 sqlparse tokens is outside the input domain (sqlparse's own limit for statement splitting raises SQLParseError): discarded and counted",
    "sqlfluff's lexer decides token boundaries; rewritten texts that sqlfluff's parser rejects (quoting rewrite only) are discarded and counted",
    "display names of un-aliased expression columns (names that are not plain identifiers) are compared after deleting quotes, whitespace, comments and case",
    "only statements whose original analyses without exception are judged; an exception on the rewritten text is then a violation",
]

PLAIN = re.compile(r"^[\w<>.$*?|\-]+$")
_state = {}


def normcol(s: str) -> str:
    if PLAIN.match(s):
        return s
    s = re.sub(r"/\*.*?\*/|--[^\n]*(\n|$)", "", s, flags=re.S)
    s = re.sub(r"[\s\"`'\[\]]", "", s)
    return s.lower()


def view(sql, dialect):
    d = observe.dump(sql, dialect, full=False)
    if "EXC" in d:
        return {"EXC": d["EXC"]}
    return {"S": d["S"], "T": d["T"], "I": d["I"],
            "pairs": sorted({(normcol(p[0]), normcol(p[-1])) for p in d["C"]})}


def entries():
    if "entries" not in _state:
        out = []
        for k, e in enumerate(corpus.plain()):
            if e.get("sqlfluff", True) and "{" not in e["sql"]:
                out.append((e["sql"], e["dialect"]))
                # the legacy analyzer is a dialect too ('non-validating'): the test suite's ansi statements that it supports
                if e.get("sqlparse") and e["dialect"] == "ansi":
                    out.append((e["sql"], "non-validating"))
        tp = corpus.tpcds()
        if _state.get("quick"):  # the big TPC-DS scripts cost ~1 s per analysis: a seeded tenth of them in the quick tier
            k = _state.get("seed", 1) % 10
            tp = tp[k::10]
        for e in tp:
            out.append((e["sql"], "ansi"))
        _state["corpus_entries"] = len(set(out))
        out += generated_entries(bool(_state.get("quick")), _state.get("seed", 1))
        _state["entries"] = sorted(set(out))
    return _state["entries"]


def generated_entries(quick, seed):
    """statements of the generators (the property quantifies over 'the corpus and the generators'): a seeded stride through the C01 and
    C02 skeleton products rendered for ansi, and the dialect-specific statements of C01 in their own dialect"""
    from vlib import sqlir as ir
    from vlib.props import C01, C02

    out = []
    k1, k2 = (80, 30) if quick else (4, 2)
    for i, (stmt, feats) in enumerate(C01.skeletons((0, 1))):
        if i % k1 == seed % k1 and not isinstance(stmt, ir.Noop):
            out.append((ir.r_stmt(stmt), "ansi"))
            out.append((ir.r_stmt(stmt), "non-validating"))  # the legacy analyzer on generator statements (every join spelling, nesting, set operations)
    for i, (stmt, feats) in enumerate(C02.skeletons()):
        if i % k2 == seed % k2:
            out.append((ir.r_stmt(stmt), "ansi"))
    for dialect, sql, S, T, feats in C01.dialect_specific_cases():
        out.append((sql, dialect))
    return out


def _prep(idx):
    """(sites, base view) per corpus entry, cached per worker"""
    c = _state.setdefault("prep", {})
    if idx not in c:
        sql, dialect = entries()[idx]
        sites = rewrite.Sites(sql, "ansi" if dialect == "non-validating" else dialect)  # token boundaries from the ansi lexer
        base = view(sql, dialect) if sites.ok else None
        c[idx] = (sites, base)
    return c[idx]


def compare(base, new):
    if "EXC" in new:
        return {"what": "rewritten text raises", "exc": new["EXC"]}
    for k in ("S", "T", "I", "pairs"):
        if base[k] != new[k]:
            return {"what": f"{k} differ", "original": base[k], "rewritten": new[k]}
    return None


_UNION_ALL_SPLIT = re.compile(r"\bunion(?! all\b)(?:\s|--[^\n]*\n|/\*.*?\*/)+all\b", re.I | re.S)
_TYPE_NAME_MIXED = re.compile(r"\bas\s+([A-Za-z]+)\s*\(", re.I)


def classify(case, detail):
    """two defects of the deprecated sqlparse-based analyzer ('non-validating'); both lose column lineage only"""
    if case.get("dialect") != "non-validating" or detail.get("what") not in ("pairs differ", "S differ"):
        return None
    new = case.get("rewritten", "")
    if _UNION_ALL_SPLIT.search(new):
        return "K-sqlparse-union-all-spacing@C07"
    if detail.get("what") == "pairs differ" and any(not m.islower() for m in _TYPE_NAME_MIXED.findall(new)) \
            and all(m.islower() for m in _TYPE_NAME_MIXED.findall(case.get("original", ""))):
        return "K-sqlparse-type-name-case@C07"
    return None


def judge(idx, edits, trailer, res, ctx, label):
    sites, base = _prep(idx)
    sql, dialect = entries()[idx]
    if not sites.ok:
        res.discard("lexer_error_or_no_roundtrip")
        return None
    if base is None or "EXC" in base:
        res.discard("original_raises")
        return None
    new_sql = sites.apply(edits, trailer)
    if new_sql == sql:
        res.discard("no_change")
        return None
    if dialect == "non-validating" and any(k == "quote" for k, _, _ in edits):
        res.discard("quoting_rewrite_not_applied_to_the_legacy_analyzer")
        return None
    if any(k == "quote" for k, _, _ in edits) and not sites.quoting_preserved(new_sql, edits):
        res.discard("quoted_variant_rejected_or_reread_by_parser")
        return None
    if any(k == "glue" for k, _, _ in edits) and not rewrite.parses(new_sql, "ansi" if dialect == "non-validating" else dialect):
        res.discard("comment_as_only_separator_rejected_by_the_parser")
        return None
    inner_changed = sites.apply(edits, None) != sql
    c = {"dialect": dialect, "original": sql, "rewritten": new_sql, "edits": [list(e) for e in edits]}
    res.case(sql + "\x00" + new_sql + "\x00" + dialect, inner_changed,
             labels=[label, "dialect:" + dialect] + sorted({"edit:" + k for k, _, _ in edits}) + (["trailer"] if trailer is not None else []),
             sample=c if len(sql) < 400 else None)
    d = compare(base, view(new_sql, dialect))
    if d is None:
        return None
    if d.get("exc", "").endswith("SQLParseError") and len(new_sql) > 5000:
        # sqlparse (used for statement splitting) refuses texts of more than 10000 tokens: a size limit of the third-party lexer that the all-sites rewrite
        # of a TPC-DS script can exceed; such rewritten texts are outside the input domain (counted)
        import sqlparse

        try:
            ntok = sum(1 for _ in sqlparse.lexer.tokenize(new_sql))
        except Exception:  # noqa
            ntok = 0
        if ntok > 10000:
            res.discard("rewritten_text_exceeds_sqlparse_token_limit")
            return None
    fid = classify(c, d)
    if fid and fid in ctx.active:
        res.known(fid, c)
        return None
    if os.environ.get("VERIF_COLLECT"):
        res.known("UNLISTED | " + dialect + " | " + d.get("what", "") + " | " + ",".join(sorted({k for k, _, _ in edits})), c)
        return None
    return {"kind": "metamorphic", "case": c, "detail": d}


def strategy(my_idxs):
    from hypothesis import strategies as st

    kinds = st.sampled_from(["ws", "comment", "case", "case", "quote", "comment", "glue"])
    edit = st.tuples(kinds, st.integers(0, 400), st.integers(0, 5))
    return st.tuples(st.sampled_from(my_idxs), st.lists(edit, min_size=1, max_size=8), st.one_of(st.none(), st.integers(0, 5)))


def _worker(payload):
    shard, n, ctx = payload
    res = runner.Res()
    my = [i for i in range(len(entries())) if i % runner.NCPU == shard]

    def body(case, res_):
        idx, edits, trailer = case
        return judge(idx, edits, trailer, res_, ctx, "random")

    runner.hyp_run(strategy(my), body, res, seed=runner.derive_seed(ctx.seed, "C07", shard), max_examples=n, ctx=ctx)
    return res


def _exhaustive_worker(payload):
    idxs, ctx = payload
    res = runner.Res()
    for idx in idxs:
        sites, base = _prep(idx)
        if not sites.ok or base is None or "EXC" in base:
            res.discard("original_raises_or_lexer_error")
            continue
        big = len(sites.toks) > 400
        singles = list(sites.all_single_edits())
        if big:  # TPC-DS scripts: a seeded stride instead of every site
            singles = singles[(ctx.seed % 7):: 7]
        for e in singles:
            if ctx.out_of_time():
                res.budget_exhausted = True
                return res
            v = judge(idx, [e], None, res, ctx, "single-site")
            if v is not None and len(res.violations) < 3:
                res.violation(v["kind"], v["case"], v["detail"])
        for kind, count in (("ws", len(sites.ws)), ("comment", len(sites.ws)), ("case", len(sites.words)), ("quote", len(sites.idents)), ("glue", len(sites.glue))):
            if count:
                for choice in range(4 if kind not in ("quote", "glue") else 1):
                    v = judge(idx, [(kind, s, choice) for s in range(count)], choice, res, ctx, "all-sites:" + kind)
                    if v is not None and len(res.violations) < 3:
                        res.violation(v["kind"], v["case"], v["detail"])
    return res


def replay(case):
    base = view(case["original"], case["dialect"])
    if "EXC" in base:
        return None
    d = compare(base, view(case["rewritten"], case["dialect"]))
    return None if d is None else {"kind": "replay", "case": case, "detail": d}


def run(ctx):
    _state["quick"], _state["seed"] = ctx.quick, ctx.seed
    n = ctx.n(4800, 60000)
    ents = entries()
    res = runner.merge_all(runner.pmap(_worker, [(i, n // runner.NCPU, ctx) for i in range(runner.NCPU)]))
    # all-sites-at-once for every entry in both tiers (cheap: ~13 analyses per entry); single-site enumeration in thorough
    if ctx.quick:
        res.merge(runner.merge_all(runner.pmap(_allsites_worker, [([i for i in range(len(ents)) if i % (runner.NCPU * 2) == c], ctx)
                                                                   for c in range(runner.NCPU * 2)])))
    else:
        order = sorted(range(len(ents)), key=lambda i: -len(ents[i][0]))
        chunks = runner.NCPU * 4
        res.merge(runner.merge_all(runner.pmap(_exhaustive_worker, [(order[c::chunks], ctx) for c in range(chunks)])))
    res.extra["corpus_entries"] = _state.get("corpus_entries")
    res.extra["entries_with_generated"] = len(ents)
    return res


def _allsites_worker(payload):
    idxs, ctx = payload
    res = runner.Res()
    for idx in idxs:
        sites, base = _prep(idx)
        if not sites.ok or base is None or "EXC" in base:
            res.discard("original_raises_or_lexer_error")
            continue
        if len(sites.toks) > 400 and (idx + ctx.seed) % 4:
            continue
        for kind, count in (("ws", len(sites.ws)), ("comment", len(sites.ws)), ("case", len(sites.words)), ("quote", len(sites.idents)), ("glue", len(sites.glue))):
            if count:
                for choice in ((ctx.seed % 4, (ctx.seed + 2) % 4) if kind not in ("quote", "glue") else (ctx.seed % 3,)):
                    v = judge(idx, [(kind, s, choice) for s in range(count)], choice, res, ctx, "all-sites:" + kind)
                    if v is not None and len(res.violations) < 3:
                        res.violation(v["kind"], v["case"], v["detail"])
    return res
