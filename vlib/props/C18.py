"""C18 - the graph export is faithful to the lineage graph.

Invariants over every result of the pool (vlib/pool.py), both export levels, the text summary and the /lineage route:
  ids        node ids are unique
  refs       every edge endpoint and every `parent` is the id of an exported node
  tables     table level: exported nodes == source | target | intermediate tables
  columns    column level: exported edges == hops of get_column_lineage(exclude_path_ending_in_subquery=False) (acyclic results);
             every column on a path is exported with its owner as compound parent
  summary    str(runner) lists the same three table lists, each table once, sorted
  route      POST /lineage returns the same exports as the runner
"""
from __future__ import annotations

import io
import json
import os
import re

from vlib import observe, pool, runner

ID = "C18"
LEVEL = "exploration"
RULE = ("case = one analysis result (script, dialect, metadata) from the pool: harvested test-suite SQL in its own dialect and under ansi with the "
        "tests' metadata, TPC-DS scripts, generated IR statements / SQL histories / set-heavy scripts; all listed invariants are evaluated on it. "
        "Non-trivial = the column-level export has >= 2 edges or the table-level export has >= 2 nodes; distinct = distinct (script, dialect, metadata).")
ASSUMPTIONS = [
    "results that raise a library exception have no export and are only counted",
    "the hop comparison is skipped for cyclic column graphs (self-insert), where simple paths do not cover every edge",
]


def route_lineage(sql, dialect):
    import sqllineage.drawing as d

    st = {}
    body = json.dumps({"e": sql, "dialect": dialect})
    env = {"REQUEST_METHOD": "POST", "PATH_INFO": "/lineage", "CONTENT_LENGTH": len(body), "wsgi.input": io.StringIO(body)}
    out = d.app(env, lambda status, headers: st.update(s=status))
    return st.get("s", "?"), json.loads(b"".join(out).decode())


def parse_summary(text):
    """sections of the text summary -> lists"""
    sec = {"Source Tables:": [], "Target Tables:": [], "Intermediate Tables:": []}
    cur = None
    for line in text.splitlines():
        if line.strip() in sec:
            cur = line.strip()
        elif cur and line.startswith("    ") and line.strip():
            sec[cur].append(line.strip())
        elif not line.startswith("    "):
            cur = None if line.strip() not in sec else cur
    return sec


def check_result(case):
    """returns (list of (invariant, detail), stats) ; ('raises', ...) when the analysis raises"""
    from sqllineage.exceptions import SQLLineageException

    problems = []
    try:
        lr = observe.runner_of(case["sql"], case["dialect"], metadata=case.get("metadata"))
        S, T, I = [str(t) for t in lr.source_tables], [str(t) for t in lr.target_tables], [str(t) for t in lr.intermediate_tables]
        tab = lr.to_cytoscape()
        col = lr.to_cytoscape("column")
        paths = lr.get_column_lineage(exclude_path_ending_in_subquery=False)
        text = str(lr)
    except SQLLineageException as e:
        return None, {"raises": type(e).__name__}
    except Exception as e:  # noqa  an escaping internal error (e.g. K-rename-multi NetworkXError) is C10's / C03's matter: no result to check here
        return None, {"raises": "escape:" + type(e).__name__}
    stats = {"table_nodes": 0, "column_edges": 0}
    for level, elems in (("table", tab), ("column", col)):
        nodes = [e["data"] for e in elems if "source" not in e["data"]]
        edges = [e["data"] for e in elems if "source" in e["data"]]
        ids = [n["id"] for n in nodes]
        if level == "table":
            stats["table_nodes"] = len(nodes)
        else:
            stats["column_edges"] = len(edges)
        dup = sorted({i for i in ids if ids.count(i) > 1})
        if dup:
            # what kind of nodes collide: compound parents (SubQuery), columns owned by a SubQuery / unresolved columns, or others
            kinds = set()
            for n in nodes:
                if n["id"] in dup:
                    if n.get("type") == "SubQuery":
                        kinds.add("subquery")
                    elif n.get("type") == "Column" and (n.get("parent") == "<unknown>" or any(p["type"] == "SubQuery" for p in n.get("parent_candidates", []))):
                        kinds.add("subquery_or_unresolved_column")
                    else:
                        kinds.add("other:" + str(n.get("type")))
            problems.append(("ids:" + level, {"duplicate_node_ids": dup[:5], "kinds": sorted(kinds)}))
        idset = set(ids)
        bad = [(e["source"], e["target"]) for e in edges if e["source"] not in idset or e["target"] not in idset]
        if bad:
            problems.append(("refs:" + level, {"dangling_edge_endpoints": bad[:5]}))
        eids = [e["id"] for e in edges]
        if len(set(eids)) != len(eids):
            problems.append(("ids:" + level, {"duplicate_edge_ids": True}))
        if level == "column":
            badp = [(n["id"], n.get("parent")) for n in nodes if "parent" in n and n["parent"] not in idset]
            if badp:
                problems.append(("refs:column", {"dangling_parent": badp[:5]}))
    # table level: nodes == S | T | I
    tnodes = {e["data"]["id"] for e in tab if "source" not in e["data"]}
    if tnodes != set(S) | set(T) | set(I):
        problems.append(("tables", {"exported_not_in_summaries": sorted(tnodes - (set(S) | set(T) | set(I)))[:5],
                                    "in_summaries_not_exported": sorted((set(S) | set(T) | set(I)) - tnodes)[:5]}))
    # the summary lists are the roles the lineage graph gives: degrees over the exported table edges + the graph's source_only /
    # target_only / selfloop node tags (independent recomputation of the role rule stated in C03)
    try:
        tg = lr._sql_holder.table_lineage_graph
        tag = lambda name: {str(n) for n, a in tg.nodes(data=True) if a.get(name) is True}  # noqa: E731
        tedges = {(e["data"]["source"], e["data"]["target"]) for e in tab if "source" in e["data"]}
        has_in, has_out = {b for a, b in tedges}, {a for a, b in tedges}
        sl = tag("selfloop")
        want = {"source": ((has_out - has_in) | sl | tag("source_only")) & tnodes, "target": ((has_in - has_out) | sl | tag("target_only")) & tnodes,
                "intermediate": (has_in & has_out) - sl}
        for name, got in (("source", S), ("target", T), ("intermediate", I)):
            if set(got) != want[name]:
                problems.append(("roles", {"role": name, "summary": sorted(got)[:6], "graph_says": sorted(want[name])[:6]}))
                break
    except AttributeError:
        pass
    # column level: edges == hops of all paths ; owners
    cedges = {(e["data"]["source"], e["data"]["target"]) for e in col if "source" in e["data"]}
    cnodes = {e["data"]["id"]: e["data"] for e in col if "source" not in e["data"]}
    hops = set()
    for p in paths:
        for a, b in zip(p, p[1:]):
            hops.add((str(a), str(b)))
        for c in p:
            n = cnodes.get(str(c))
            want = str(c.parent) if c.parent is not None else "<unknown>"
            if n is None:
                problems.append(("columns", {"path_column_not_exported": str(c)}))
                break
            if len([1 for x in col if "source" not in x["data"] and x["data"]["id"] == str(c)]) == 1 and n.get("parent") != want:
                problems.append(("columns", {"column": str(c), "exported_parent": n.get("parent"), "owner": want}))
                break
    cyclic = _has_cycle(cedges)
    if not cyclic and hops != cedges:
        problems.append(("columns", {"edges_not_on_any_path": sorted(cedges - hops)[:5], "path_hops_not_exported": sorted(hops - cedges)[:5]}))
    # text summary
    sec = parse_summary(text)
    for name, want in (("Source Tables:", S), ("Target Tables:", T), ("Intermediate Tables:", I)):
        got = sec[name]
        if got != want or got != sorted(got) or len(set(got)) != len(got):
            problems.append(("summary", {"section": name, "summary": got[:8], "accessor": want[:8]}))
    m = re.search(r"Statements\(#\): (\d+)", text)
    if not m or int(m.group(1)) != len(lr.statements()):
        problems.append(("summary", {"statements_line": m.group(0) if m else None, "statements": len(lr.statements())}))
    # /lineage route (no metadata: the app's provider is the default one)
    if not case.get("metadata"):
        try:
            status, data = route_lineage(case["sql"], case["dialect"])
            if not status.startswith("200"):
                problems.append(("route", {"status": status, "body": str(data)[:200]}))
            else:
                if observe.cyto(data["dag"]) != observe.cyto(tab) or observe.cyto(data["column"]) != observe.cyto(col):
                    problems.append(("route", {"what": "route export differs from runner export"}))
                # the verbose text (per-statement blocks, then the same summary)
                vtext = data.get("verbose")
                if isinstance(vtext, str):
                    vsec = parse_summary(vtext.split("Summary:")[-1])
                    for name, want in (("Source Tables:", S), ("Target Tables:", T), ("Intermediate Tables:", I)):
                        if vsec[name] != want:
                            problems.append(("summary", {"section": name, "verbose_summary": vsec[name][:8], "accessor": want[:8]}))
                            break
        except Exception as e:  # noqa
            problems.append(("route", {"exc": repr(e)[:200]}))
    return problems, stats


def _has_cycle(edges):
    adj = {}
    for a, b in edges:
        adj.setdefault(a, []).append(b)
    state = {}

    def visit(n):
        stack = [(n, iter(adj.get(n, [])))]
        state[n] = 1
        while stack:
            node, it = stack[-1]
            for m in it:
                if state.get(m) == 1:
                    return True
                if m not in state:
                    state[m] = 1
                    stack.append((m, iter(adj.get(m, []))))
                    break
            else:
                state[node] = 2
                stack.pop()
        return False

    return any(n not in state and visit(n) for n in list(adj))


# ------------------------------------------------------------------------------------------ known findings
def classify(case, detail):
    inv = detail.get("invariant", "")
    sql = case.get("sql", "").lower()
    for fid, pred in KNOWN.items():
        if pred(case, sql, inv, detail):
            return fid
    return None


def _values_alias(sql, table):
    from vlib.props import C06

    return C06._values_alias(sql, table)


def _renamed_tables(sql):
    names = set()
    for m in re.finditer(r"rename\s+(?:table\s+)?(.*?)(?:;|$)", sql, flags=re.S):
        for w in re.findall(r"[\w.]+", m.group(1)):
            if w not in ("to", "table"):
                names.add(w.split(".")[-1])
    for m in re.finditer(r"alter\s+table\s+([\w.]+)\s+rename", sql):
        names.add(m.group(1).split(".")[-1])
    return names


def _eqtext(sql):
    from vlib.props import C11

    return C11.equal_text_subqueries(sql)


KNOWN = {
    # two textually equal subqueries with different aliases are ONE node whose printed alias varies per reference
    "K-eqtext-subq@C18": lambda case, sql, inv, d: _eqtext(case["sql"]) and (
        (inv == "columns" and "exported_parent" in d) or (inv == "ids:column" and set(d.get("kinds", [])) <= {"subquery", "subquery_or_unresolved_column"})),
    # two distinct nodes that print the same name (derived tables sharing an alias in different scopes / statements, unresolved
    # columns with different candidates) collide on the exported id
    "K-dup-ids@C18": lambda case, sql, inv, d: inv == "ids:column" and bool(d.get("kinds")) and set(d["kinds"]) <= {"subquery", "subquery_or_unresolved_column"},
    "K-lateral-alias@C18": lambda case, sql, inv, d: inv == "tables" and "lateral view" in sql and not d["in_summaries_not_exported"],
    # tables read only inside a scalar subquery of the select list are missing from table lineage (K-scalar-select@C01) but their columns are lineage sources
    "K-scalar-select@C18": lambda case, sql, inv, d: inv == "tables" and not d["in_summaries_not_exported"] and bool(d["exported_not_in_summaries"])
    and re.search(r"(select|,)\s*\(\s*select\b", sql) is not None,
    "K-values-alias@C18": lambda case, sql, inv, d: inv == "tables" and not d["in_summaries_not_exported"] and bool(d["exported_not_in_summaries"])
    and all(_values_alias(sql, t) for t in d["exported_not_in_summaries"]),
    "K-rename-orphan@C18": lambda case, sql, inv, d: inv == "tables" and "rename" in sql and not d["in_summaries_not_exported"]
    and {t.split(".")[-1] for t in d["exported_not_in_summaries"]} <= _renamed_tables(sql),
    "K-scalar-subquery-schema@C18": lambda case, sql, inv, d: inv == "tables" and not d["in_summaries_not_exported"]
    and all(t.startswith("<default>.") and re.search(r"\(\s*select.{0,400}?(\b" + re.escape(t.split(".")[-1]) + r"\.\w|\w\." + re.escape(t.split(".")[-1]) + r"\b)", sql, flags=re.S)
            for t in d["exported_not_in_summaries"]),
}


def _worker(payload):
    cases, ctx = payload
    res = runner.Res()
    for c in cases:
        if ctx.out_of_time():
            res.budget_exhausted = True
            break
        problems, stats = check_result(c)
        key = (c["sql"], c["dialect"], json.dumps(c.get("metadata"), sort_keys=True))
        if problems is None:
            res.case(key, False, labels=["origin:" + c["origin"], "raises:" + stats["raises"]])
            continue
        nt = stats["column_edges"] >= 2 or stats["table_nodes"] >= 2
        res.case(key, nt, labels=["origin:" + c["origin"]] + (["with_metadata"] if c.get("metadata") else []),
                 sample={k: c[k] for k in ("sql", "dialect", "metadata")} if len(c["sql"]) < 300 else None)
        for inv, d in problems:
            d = dict(d, invariant=inv)
            cc = {k: c[k] for k in ("sql", "dialect", "metadata")}
            fid = classify(cc, d)
            if fid and fid in ctx.active:
                res.known(fid, cc)
            elif os.environ.get("VERIF_COLLECT"):
                res.known("UNLISTED | " + inv + " | " + json.dumps(d)[:150], cc)
            elif len(res.violations) < 4:
                res.violation(inv, cc, d)
    return res


def replay(case):
    problems, stats = check_result(case)
    if not problems:
        return None
    inv, d = problems[0]
    want = case.get("invariant")
    for i, dd in problems:
        if want and i == want:
            inv, d = i, dd
    return {"kind": inv, "case": case, "detail": dict(d, invariant=inv)}


def run(ctx):
    cases = pool.all_cases(ctx, ctx.n(400, 6000))
    order = sorted(range(len(cases)), key=lambda i: -len(cases[i]["sql"]))
    chunks = runner.NCPU * 3
    res = runner.merge_all(runner.pmap(_worker, [([cases[i] for i in order[c::chunks]], ctx) for c in range(chunks)]))
    res.extra["pool_size"] = len(cases)
    return res
