"""C12 - runs are isolated from one another.

A history is a sequence of runs executed in ONE process (forked pristine for every history: sqllineage imported, nothing
analysed yet).  Run kinds: a script with the shared default provider / a long-lived user provider / a fresh provider;
a script that fails part-way (unsupported or unparsable statement at every position); a run whose provider raises on its
j-th lookup (fault injection through the public _get_table_columns extension point); a run inside a configuration scope;
tsql no-semicolon runs (split cache).  After EVERY run: its observation (canonical dump or exception type) must equal the
pristine baseline of that run - computed alone in a fresh forked process - and the providers must answer lookups exactly
like fresh ones.  A threaded stream runs batches on a 16-thread pool with per-thread providers against the same baselines.
"""
from __future__ import annotations

import json
import os

from vlib import observe, runner

ID = "C12"
LEVEL = "exploration"
RULE = ("history = 2-12 runs drawn from the run pool (scripts x provider kind {shared default, long-lived user (dict-backed / SQLAlchemy on in-memory sqlite), fresh, faulty on j-th lookup} x "
        "config {none, DEFAULT_SCHEMA scope, tsql no-semicolon scope}), executed in one pristine forked process; every run is compared with its "
        "baseline from a fresh process and providers are probed after every run. threads: batches of 16-48 runs on a 16-thread pool. "
        "Non-trivial = the history contains a failing run followed by a run that reads a table the failed run had registered, or >= 2 runs share "
        "a provider object; distinct = distinct history.")
ASSUMPTIONS = [
    "baseline = the same run alone in a process forked from a parent that has imported sqllineage but never analysed anything",
    "the long-lived user provider and fresh providers carry the same metadata dict, so a correct implementation cannot tell them apart",
    "threaded batches use the OS scheduler: a difference is a real violation, silence is weak evidence (DESIGN.md section 7)",
    "faults are injected by a provider subclass whose _get_table_columns raises on its j-th call (then recovers)",
]

MD = {"s.src": ["a", "b", "c"], "s.src2": ["a", "d"], "s.other": ["b", "z"], "main.tab1": ["col1", "col2"]}
PROBE_TABLES = ["s.t1", "s.t2", "s.src", "s.tmp", "<default>.t1", "main.tab1", "s.v1", "s.nosuch", "s.src2", "s.other"]

SCRIPTS = [
    ("ansi", "create table s.t1 as select a, b as bb from s.src; insert into s.t2 select * from s.t1"),
    ("ansi", "insert into s.t2 select * from s.t1"),
    ("ansi", "insert into s.t3 select bb, a from s.t1"),
    ("ansi", "create table s.t1 as select a, b from s.src; create index i on x(y); insert into s.t2 select * from s.t1"),
    ("ansi", "create table s.t1 as select c, d from s.src join s.src2 on s.src.a = s.src2.a; selec from where; select 1"),
    ("ansi", "create view s.v1 as select a, z from s.src join s.other on s.src.b = s.other.b; insert into s.t4 select * from s.v1"),
    ("ansi", "insert into s.t4 select * from s.v1"),
    ("ansi", "create table t1 as select x, y from raw1; insert into t2 select * from t1; drop table t1"),
    ("ansi", "insert into t2 select * from t1"),
    ("ansi", "create table s.tmp as select a from s.src; grant select on s.tmp to u; insert into s.out select * from s.tmp"),
    ("ansi", "insert into s.out select * from s.tmp"),
    ("ansi", "insert into s.t5 select a, d, z from s.src join s.src2 on s.src.a = s.src2.a join s.other on s.src.b = s.other.b"),
    ("ansi", "insert into s.t1 select a from s.src; insert into s.t1 select d from s.src2; insert into s.t6 select * from s.t1"),
    ("ansi", "select * from s.t1 join s.tmp on s.t1.a = s.tmp.a"),
    ("ansi", "insert into main.tab2 select * from main.tab1; insert into main.tab3 select col1 from main.tab2"),
    ("ansi", "with q as (select a, b from s.src) insert into s.t1 select * from q; select a from s.t1, s.src2"),
    ("sparksql", "insert overwrite table s.t1 select a, b from s.src; cache table s.t1; insert into s.t2 select * from s.t1"),
    ("mysql", "create table s.t1 as select a from s.src; rename table s.t1 to s.t9; insert into s.t2 select * from s.t9"),
    ("non-validating", "create table s.t1 as select a, b from s.src; insert into s.t2 select * from s.t1"),
    ("ansi", "insert into s.t1 select a from s.src; create table s.t1 as select b, c from s.src; commit; insert into s.t2 select * from s.t1"),
    # scripts that RE-CREATE a table the provider already knows, with other columns, and read it back (the session shadows the catalog; nothing of it may
    # reach the provider's own data)
    ("ansi", "create table s.src2 as select b as p, c as q from s.src; insert into s.t2 select * from s.src2"),
    ("ansi", "create table main.tab1 as select a as col9 from s.src; insert into main.tab3 select * from main.tab1; selec from where"),
    ("non-validating", "create table s.other as select a as p from s.src; insert into s.t2 select * from s.other"),
    ("ansi", "insert into s.t2 select * from s.src2; insert into s.t3 select * from main.tab1 join s.other on s.other.b = main.tab1.col1"),
    # byte-identical to statements of the tsql scripts below (a process-wide statement cache would leak T-SQL parse trees into these runs)
    ("ansi", "UPDATE s.t1 SET a = s.src.a FROM s.src WHERE s.src.b = s.t1.b"),
    ("snowflake", "UPDATE s.t1 SET a = s.src.a FROM s.src WHERE s.src.b = s.t1.b"),
    ("ansi", "SELECT a, b INTO s.t7 FROM s.src"),
    ("postgres", "SELECT a, b INTO s.t7 FROM s.src"),
    ("ansi", "INSERT INTO s.t2 SELECT * FROM s.t1"),
]
TSQL_SCRIPTS = [
    "UPDATE s.t1 SET a = s.src.a FROM s.src WHERE s.src.b = s.t1.b\nSELECT a, b INTO s.t7 FROM s.src",
    "SELECT a, b INTO s.t7 FROM s.src\nCREATE INDEX i ON s.t7 (a)\nUPDATE s.t1 SET a = s.src.a FROM s.src WHERE s.src.b = s.t1.b",
    "SELECT a, b INTO s.t1 FROM s.src\nINSERT INTO s.t2 SELECT * FROM s.t1",
    "INSERT INTO s.t2 SELECT * FROM s.t1\nINSERT INTO s.t2 SELECT * FROM s.t1",
    "INSERT INTO s.t2 SELECT * FROM s.t1",
]


def run_pool():
    """all run specs: (dialect, sql, provider kind, config)"""
    specs = []
    for d, s in SCRIPTS:
        for prov in ("default", "md"):
            for cfg in (None, {"DEFAULT_SCHEMA": "cfg1"}):
                specs.append({"dialect": d, "sql": s, "provider": prov, "config": cfg})
        for j in (1, 2, 3):
            specs.append({"dialect": d, "sql": s, "provider": f"faulty:{j}", "config": None})
    for s in TSQL_SCRIPTS:
        for prov in ("default", "md"):
            specs.append({"dialect": "tsql", "sql": s, "provider": prov, "config": {"TSQL_NO_SEMICOLON": True}})
    # the other bundled provider (appended last: earlier indices stay what they were)
    for d, s in SCRIPTS:
        specs.append({"dialect": d, "sql": s, "provider": "sa", "config": None})
    # providers that DISAGREE about the same table name, under a non-default setting whose answer depends on the table's columns
    # (lateral column alias reference: 'id' is the alias unless the table itself has a column of that name)
    for s in LCA_SCRIPTS:
        for prov in ("md", "md2", "default"):
            specs.append({"dialect": "ansi", "sql": s, "provider": prov, "config": {"LATERAL_COLUMN_ALIAS_REFERENCE": True}})
        specs.append({"dialect": "ansi", "sql": s, "provider": "md2", "config": None})
    # silent mode: the scripts holding a statement of an unsupported type, analysed with silent_mode=True (their strict runs are above) - a run
    # must not inherit the mode of an earlier run of the same dialect
    for d, s in SCRIPTS:
        if d != "non-validating" and any(k in s for k in ("create index", "grant select", "cache table", "; commit;")):
            for prov in ("default", "md"):
                specs.append({"dialect": d, "sql": s, "provider": prov, "config": None, "silent": True})
    return specs


LCA_SCRIPTS = ["insert into s.t8 select a as id, id as x from s.src", "insert into s.t9 select b as z, z + 1 as y from s.other; insert into s.t8 select a as id, id as x from s.src"]
MD2 = {"s.src": ["a", "id"], "s.src2": ["a", "d"], "s.other": ["b", "q"]}  # same table names as MD, other columns


def make_sa():
    """SQLAlchemyMetaDataProvider on in-memory sqlite holding the tables of MD (one ATTACHed database per schema)"""
    from sqllineage.core.metadata.sqlalchemy import SQLAlchemyMetaDataProvider

    p = SQLAlchemyMetaDataProvider("sqlite://")
    with p.engine.connect() as c:
        for schema in sorted({k.split(".")[0] for k in MD} - {"main"}):
            c.exec_driver_sql(f"ATTACH ':memory:' AS {schema}")
        for k, cols in MD.items():
            c.exec_driver_sql(f"create table {k} (" + ", ".join(f"{x} int" for x in cols) + ")")
        c.commit()
    return p


def spec_key(spec):
    return json.dumps([spec["dialect"], spec["sql"], spec["provider"], spec["config"]] + ([True] if spec.get("silent") else []), sort_keys=True)


def make_faulty(j):
    from sqllineage.core.metadata.dummy import DummyMetaDataProvider

    class Faulty(DummyMetaDataProvider):
        def __init__(self):
            super().__init__(dict(MD))
            self.calls = 0
            self.armed = True

        def _get_table_columns(self, schema, table, **kw):
            self.calls += 1
            if self.armed and self.calls == j:
                self.armed = False
                raise RuntimeError("injected provider fault")
            return super()._get_table_columns(schema, table, **kw)

    return Faulty()


def execute_run(spec, provider_obj=None):
    """observe one run; provider_obj overrides the provider built from spec (long-lived user provider)"""
    import contextlib

    from sqllineage.config import SQLLineageConfig
    from sqllineage.core.metadata.dummy import DummyMetaDataProvider

    prov = provider_obj
    if prov is None:
        if spec["provider"] == "md":
            prov = DummyMetaDataProvider(dict(MD))
        elif spec["provider"] == "md2":
            prov = DummyMetaDataProvider(dict(MD2))
        elif spec["provider"] == "sa":
            prov = make_sa()
        elif spec["provider"].startswith("faulty:"):
            prov = make_faulty(int(spec["provider"].split(":")[1]))
    scope = SQLLineageConfig(**spec["config"]) if spec["config"] else contextlib.nullcontext()
    with scope:
        return observe.dump(spec["sql"], spec["dialect"], provider=prov, silent=bool(spec.get("silent")))


def _baseline_task(spec):
    return execute_run(spec)


def probe_provider(prov):
    from sqllineage.core.models import Table

    out = {}
    for t in PROBE_TABLES:
        try:
            out[t] = [str(c) for c in prov.get_table_columns(Table(t))]
        except Exception as e:  # noqa
            out[t] = "EXC " + type(e).__name__
    return out


def default_provider():
    import inspect

    from sqllineage.runner import LineageRunner

    return inspect.signature(LineageRunner.__init__).parameters["metadata_provider"].default


def exec_history(history, baselines):
    """history: list of [spec index, use_user_provider(bool)]. Runs in a pristine process. returns verdict | None"""
    from sqllineage.core.metadata.dummy import DummyMetaDataProvider

    specs = run_pool()
    user = DummyMetaDataProvider(dict(MD))
    fresh_probe_md = probe_provider(DummyMetaDataProvider(dict(MD)))
    fresh_probe_default = probe_provider(DummyMetaDataProvider())
    user_sa = fresh_probe_sa = None
    for step, (idx, use_user) in enumerate(history):
        spec = specs[idx]
        prov_obj = user if (use_user and spec["provider"] == "md") else None
        if use_user and spec["provider"] == "sa":
            if user_sa is None:
                user_sa, fresh_probe_sa = make_sa(), probe_provider(make_sa())
            prov_obj = user_sa
        got = execute_run(spec, prov_obj)
        base = baselines[spec_key(spec)]
        if json.dumps(got, sort_keys=True) != json.dumps(base, sort_keys=True):
            diff = next((k for k in base if base.get(k) != got.get(k)), None) or next((k for k in got if base.get(k) != got.get(k)), None)
            return {"what": "run differs from its pristine baseline", "step": step, "spec": spec, "first_difference": diff,
                    "baseline": base.get(diff), "got": got.get(diff)}
        p1 = probe_provider(user)
        if p1 != fresh_probe_md:
            return {"what": "long-lived provider no longer answers like a fresh one", "step": step, "spec": spec,
                    "diff": {t: [fresh_probe_md[t], p1[t]] for t in p1 if p1[t] != fresh_probe_md[t]}}
        if user_sa is not None:
            p3 = probe_provider(user_sa)
            if p3 != fresh_probe_sa:
                return {"what": "long-lived SQLAlchemy provider no longer answers like a fresh one", "step": step, "spec": spec,
                        "diff": {t: [fresh_probe_sa[t], p3[t]] for t in p3 if p3[t] != fresh_probe_sa[t]}}
        p2 = probe_provider(default_provider())
        if p2 != fresh_probe_default:
            return {"what": "shared default provider no longer answers like a fresh one", "step": step, "spec": spec,
                    "diff": {t: [fresh_probe_default[t], p2[t]] for t in p2 if p2[t] != fresh_probe_default[t]}}
    return None


def in_child(func, *args):
    """run func(*args) in a forked child and return its JSON-able result"""
    r, w = os.pipe()
    pid = os.fork()
    if pid == 0:
        code = 0
        try:
            os.close(r)
            runner.quiet()
            out = json.dumps({"ok": func(*args)}, default=str).encode()
        except BaseException as e:  # noqa
            import traceback

            out = json.dumps({"err": "".join(traceback.format_exception(type(e), e, e.__traceback__))[-3000:]}).encode()
            code = 1
        try:
            with os.fdopen(w, "wb") as f:
                f.write(out)
        finally:
            os._exit(code)
    os.close(w)
    data = b""
    with os.fdopen(r, "rb") as f:
        data = f.read()
    os.waitpid(pid, 0)
    if not data:
        raise runner.HarnessError("child produced no output")
    res = json.loads(data)
    if "err" in res:
        raise runner.HarnessError("child failed:\n" + res["err"])
    return res["ok"]


FAILING = {i for i, (d, s) in enumerate(SCRIPTS) if "create index" in s or "selec from" in s or "grant " in s or "commit" in s}


def nontrivial(history):
    specs = run_pool()
    shared = sum(1 for idx, u in history if u and specs[idx]["provider"] == "md") >= 2 or sum(1 for idx, u in history if u and specs[idx]["provider"] == "sa") >= 2 or \
        sum(1 for idx, u in history if specs[idx]["provider"] == "default") >= 2
    fail_then_read = False
    seen_fail = False
    for idx, u in history:
        sql = specs[idx]["sql"]
        if seen_fail and sql.startswith(("insert into s.t2 select * from s.t1", "insert into s.out select * from s.tmp", "select * from s.t1")):
            fail_then_read = True
        if any(sql == SCRIPTS[i][1] for i in FAILING) or specs[idx]["provider"].startswith("faulty"):
            seen_fail = True
    return shared or fail_then_read, fail_then_read


def strategy(nspecs):
    from hypothesis import strategies as st

    return st.lists(st.tuples(st.integers(0, nspecs - 1), st.booleans()), min_size=2, max_size=12)


def classify(case, detail):
    return None


def _worker(payload):
    shard, n, ctx, baselines = payload
    res = runner.Res()
    nspecs = len(run_pool())

    def body(history, res_):
        hist = [list(h) for h in history]
        nt, ftr = nontrivial(hist)
        res_.case(json.dumps(hist), nt, labels=["history", f"len={len(hist)}"] + (["fail_then_read"] if ftr else []),
                  sample={"history": hist, "runs": [run_pool()[i]["sql"][:60] + " | " + run_pool()[i]["provider"] for i, _ in hist][:12]})
        v = in_child(exec_history, hist, baselines)
        if v is None:
            return None
        return {"kind": "history", "case": {"history": hist}, "detail": v}

    runner.hyp_run(strategy(nspecs), body, res, seed=runner.derive_seed(ctx.seed, "C12", shard), max_examples=n, ctx=ctx)
    return res


def _thread_batch(batch, baselines):
    """runs in a pristine child: execute the batch on a 16-thread pool, each run with its own provider"""
    from concurrent.futures import ThreadPoolExecutor

    specs = run_pool()
    with ThreadPoolExecutor(16) as ex:
        outs = list(ex.map(lambda i: execute_run(specs[i]), batch))
    for i, got in zip(batch, outs):
        base = baselines[spec_key(specs[i])]
        if json.dumps(got, sort_keys=True) != json.dumps(base, sort_keys=True):
            diff = next((k for k in base if base.get(k) != got.get(k)), None)
            return {"what": "threaded run differs from its sequential pristine baseline", "spec": specs[i], "first_difference": diff,
                    "baseline": base.get(diff), "got": got.get(diff)}
    return None


def _thread_worker(payload):
    shard, n, ctx, baselines = payload
    from hypothesis import strategies as st

    res = runner.Res()
    specs = run_pool()
    # per-thread providers only: the shared default provider and config scopes are excluded from threaded batches
    # (config scopes are thread-local by C15; the default provider is process-global by design)
    ok = [i for i, s in enumerate(specs) if s["provider"] != "default" and s["dialect"] != "tsql"]

    def body(batch, res_):
        res_.case(json.dumps(batch), True, labels=["threads"], sample={"thread_batch": batch[:8]})
        v = in_child(_thread_batch, batch, baselines)
        if v is None:
            return None
        return {"kind": "threads", "case": {"thread_batch": batch}, "detail": v}

    runner.hyp_run(st.lists(st.sampled_from(ok), min_size=16, max_size=48), body, res,
                   seed=runner.derive_seed(ctx.seed, "C12thr", shard), max_examples=n, ctx=ctx)
    return res


def compute_baselines(specs):
    outs = runner.pmap(_baseline_task, specs, fresh=True)
    return {spec_key(s): o for s, o in zip(specs, outs)}


def replay(case):
    specs = run_pool()
    if "thread_batch" in case:
        need = sorted(set(case["thread_batch"]))
        baselines = compute_baselines([specs[i] for i in need])
        v = in_child(_thread_batch, case["thread_batch"], baselines)
    else:
        need = sorted({i for i, _ in case["history"]})
        baselines = compute_baselines([specs[i] for i in need])
        v = in_child(exec_history, case["history"], baselines)
    return None if v is None else {"kind": "replay", "case": case, "detail": v}


def run(ctx):
    specs = run_pool()
    baselines = compute_baselines(specs)
    n = ctx.n(480, 6000)
    res = runner.merge_all(runner.pmap(_worker, [(i, n // runner.NCPU, ctx, baselines) for i in range(runner.NCPU)]))
    n2 = ctx.n(96, 2000)
    res.merge(runner.merge_all(runner.pmap(_thread_worker, [(i, max(1, n2 // runner.NCPU), ctx, baselines) for i in range(runner.NCPU)])))
    res.extra["run_pool_size"] = len(specs)
    res.extra["baselines_raising"] = sum(1 for b in baselines.values() if "EXC" in b)
    return res
