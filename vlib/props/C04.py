"""C04 - column lineage chains across statements.

Generator : scripts of 2-4 IR statements; statement i writes s.w<i> with a known column list (INSERT with explicit list, or CTAS /
            CREATE VIEW whose select items are all aliased) and reads base tables and / or EARLIER targets (chain shapes linear, diamond,
            fan-in, fan-out, re-write of an intermediate arise from the drawn read sets); every target column is an expression over 1-2
            available columns, referenced with qualifiers; optionally through a derived table.  Each script runs without a provider and
            with a truthy DummyMetaDataProvider; the provider variants add 'SELECT *' from an earlier target and an unqualified column
            that only the earlier target defines.
Oracle    : relational composition - union of the per-statement reference edges (vlib/sqlir.expected, with the session metadata the
            earlier statements established) into one graph; the reported paths with subquery columns removed must be EXACTLY the simple
            root -> leaf paths of that graph (columns not consumed downstream end at the intermediate table).
"""
from __future__ import annotations

import json
import os

from vlib import observe, runner
from vlib import sqlir as ir
from vlib.props import C01

ID = "C04"
LEVEL = "exploration"
EXHAUSTIVE = False
EXHAUSTIVE_STREAMS = {'pattern': 'all well-formed operation sequences within the stated lengths (complete)', 'random': 'sampled'}
RULE = ("case = script of 2-4 generated statements (read set over base tables and earlier targets x column-overlap pattern x expression form x statement "
        "kind {INSERT (cols), CTAS, CREATE VIEW} x optional derived table x optional re-write of an earlier target), analysed without provider and with a "
        "truthy dict provider (+ star / unqualified-column variants that need the session metadata). Non-trivial = at least one reported path has >= 3 nodes "
        "crossing a statement boundary; distinct = distinct (script text, provider).")
ASSUMPTIONS = [
    "references across statements are qualified, so the per-statement reference semantics is exact; unqualified names are fresh per scope (same-named unresolved columns of different statements merge: finding K-unres-merge, excluded by construction)",
    "star over an earlier target and unqualified columns it defines are generated only with a provider in use (the property states them for that case)",
    "paths are compared after removing subquery columns (get_column_lineage(exclude_subquery_columns=True))",
]

BASE = [("s", "b1"), ("s", "b2"), ("s", "b3")]
BASE_COLS = ["x1", "x2", "x3"]


def Tn(name):
    return ir.T("s", name)


def strategy():
    from hypothesis import strategies as st

    expr_form = st.integers(0, 6)
    col_pick = st.tuples(st.integers(0, 50), st.integers(0, 50))
    stmt = st.tuples(
        st.integers(0, 2),                                   # kind: insert(cols) / ctas / view
        st.lists(st.integers(0, 9), min_size=1, max_size=3),  # read set picks (base tables and earlier targets)
        st.lists(st.tuples(expr_form, col_pick), min_size=1, max_size=3),  # one entry per target column
        st.integers(0, 5),                                   # mode: derived / rewrite / self_ref / star_base / redefine / plain
        st.integers(0, 3),                                   # provider-only variant: 0 none, 1 star from earlier target, 2 unqualified column
    )
    return st.tuples(st.lists(stmt, min_size=2, max_size=4), st.booleans())


def build(case):
    """returns (list of IR statements, needs_provider).  targets: name -> list of column names currently defined ([] = only '*')"""
    stmts_spec, use_provider = case
    targets = []  # [name, cols]   (cols == [] : the table was created by SELECT * over an unknown table: only its star can be read)
    out = []
    needs_provider = False
    seen_inner = set()
    unq_names = set()  # a name is used unqualified at most once per script (same-named unresolved columns of different statements merge: K-unres-merge)
    for i, (kind, reads, cols_spec, wrap, variant) in enumerate(stmts_spec):
        named_targets = [t for t in targets if t[1]]
        avail = [(f"{s}.{n}", list(BASE_COLS)) for s, n in BASE] + [(f"s.{n}", list(c)) for n, c in named_targets]
        picks = []
        if named_targets:
            picks.append(len(BASE) + reads[0] % len(named_targets))
        for r in reads[1:] if named_targets else reads:
            picks.append(r % len(avail))
        picks = list(dict.fromkeys(picks))[:3]
        rels = [avail[p] for p in picks]
        mode = ["derived", "rewrite", "self_ref", "star_base", "redefine", "plain"][wrap % 6]
        if mode == "rewrite" and not (len(named_targets) >= 2 and i >= 2):
            mode = "plain"
        if mode == "redefine" and not (named_targets and i >= 2 and kind != 0):
            mode = "plain"
        star_only = [t for t in targets if not t[1]]
        # ---- star read of a table that only has '*' (created by SELECT * over an unknown table): w.* -> new.*
        if star_only and variant == 3 and kind != 0:
            src = star_only[reads[0] % len(star_only)]
            tname = f"w{i + 1}"
            q = ir.Select((ir.Item(ir.Star(None)),), (ir.FromGroup(Tn(src[0])),))
            out.append(ir.Ctas(Tn(tname), q, "CREATE TABLE", False) if kind == 1 else ir.CreateView(Tn(tname), None, q, "CREATE VIEW", False))
            targets.append([tname, []])
            continue
        if mode == "star_base" and kind != 0:
            b = BASE[reads[0] % len(BASE)]
            tname = f"w{i + 1}"
            q = ir.Select((ir.Item(ir.Star(None)),), (ir.FromGroup(ir.T(b[0], b[1])),))
            out.append(ir.Ctas(Tn(tname), q, "CREATE TABLE", False) if kind == 1 else ir.CreateView(Tn(tname), None, q, "CREATE VIEW", False))
            targets.append([tname, []])
            continue
        if mode == "rewrite":
            tname, tcols = named_targets[0][0], list(named_targets[0][1])
            rels = [r for r in rels if r[0] != f"s.{tname}"] or [avail[0]]
            ncols = len(tcols)
        elif mode == "redefine":
            # CREATE the table again with DIFFERENT columns (after it may have been read): later reads must see the new definition
            tname = named_targets[reads[0] % len(named_targets)][0]
            rels = [r for r in rels if r[0] != f"s.{tname}"] or [avail[0]]
            ncols = len(cols_spec)
            tcols = [f"z{i + 1}{j + 1}" for j in range(ncols)]
        else:
            tname = f"w{i + 1}"
            ncols = len(cols_spec)
            tcols = [f"y{i + 1}{j + 1}" for j in range(ncols)]
        flat = [(r[0], c) for r in rels for c in r[1]]
        items = []
        single_w = len(rels) == 1 and rels[0][0].startswith("s.w")
        star_variant = use_provider and variant == 1 and mode in ("plain", "derived") and kind != 0 and single_w
        unq_variant = use_provider and variant == 2 and mode in ("plain", "derived", "self_ref") and len(rels) >= 2 and rels[0][0].startswith("s.w")
        if unq_variant:
            cand = rels[0][1][cols_spec[0][1][0] % len(rels[0][1])]
            if cand in unq_names:
                unq_variant = False
            else:
                unq_names.add(cand)
        for j in range(ncols):
            form, (a, b) = cols_spec[j % len(cols_spec)]
            ca, cb = flat[a % len(flat)], flat[b % len(flat)]
            A, B = ir.Col(ca[0], ca[1]), ir.Col(cb[0], cb[1])
            if unq_variant and j == 0:
                A = ir.Col(None, rels[0][1][a % len(rels[0][1])])
                needs_provider = True
                form = 0
            e = [A, ir.Func("coalesce", (A, B)), ir.Bin("+", A, B), ir.Case(((ir.Cmp(A, ">", ir.Lit("0")), B),), A), ir.Cast(A, "int", "cast"),
                 ir.Func("max", (ir.Bin("*", A, ir.Lit("2")),)), ir.Win("sum", (A,), (B,), (A,))][form % 7]
            items.append(ir.Item(e, tcols[j], True))
        first = Tn(rels[0][0].split(".")[1])
        joins = tuple(ir.Join("JOIN", Tn(r[0].split(".")[1]), ("on", ir.Cmp(ir.Col(rels[0][0], rels[0][1][0]), "=", ir.Col(r[0], r[1][0])))) for r in rels[1:])
        if mode == "self_ref" and kind == 0:
            # the statement also reads the table it writes (a lookup join against its own target); no column of it is selected
            joins = joins + (ir.Join("LEFT JOIN", Tn(tname), ("on", ir.Cmp(ir.Col(rels[0][0], rels[0][1][0]), "=", ir.Col(f"s.{tname}", tcols[0])))),)
        groups = [ir.FromGroup(first, joins)]
        if star_variant:
            q = ir.Select((ir.Item(ir.Star(None)),), tuple(groups))
            tcols = list(rels[0][1])
            needs_provider = True
        else:
            q = ir.Select(tuple(items), tuple(groups))
            if mode == "derived" and not unq_variant:
                # every statement uses the SAME derived-table alias and the same inner column names v1, v2, ...: the columns d.v1 of different
                # statements are different columns (other subquery), whatever they are called
                inner = ir.Select(tuple(ir.Item(it.e, f"v{j + 1}", True) for j, it in enumerate(q.items)), q.frm)
                alias = "d"
                if ir.r_query(inner) in seen_inner:
                    alias = f"d{i + 1}"  # two statements with the SAME derived text and alias are one subquery node (K-eqtext-subq): keep them apart
                seen_inner.add(ir.r_query(inner))
                q = ir.Select(tuple(ir.Item(ir.Col(alias, f"v{j + 1}"), c, True) for j, c in enumerate(tcols)), (ir.FromGroup(ir.Derived(inner, alias, True)),))
        tgt = Tn(tname)
        if (kind == 0 or mode == "rewrite") and mode != "redefine":
            st_ = ir.Insert(tgt, tuple(tcols) if not star_variant else None, q, "INSERT INTO", False)
        elif kind == 1:
            st_ = ir.Ctas(tgt, q, "CREATE OR REPLACE TABLE" if mode == "redefine" else "CREATE TABLE", False)
        else:
            st_ = ir.CreateView(tgt, None, q, "CREATE OR REPLACE VIEW" if mode == "redefine" else "CREATE VIEW", False)
        out.append(st_)
        if mode == "redefine":
            for t in targets:
                if t[0] == tname:
                    t[1] = tcols
        elif mode != "rewrite":
            targets.append([tname, tcols])
    return out, needs_provider


def unqualify(stmts):
    """the same script with every table written WITHOUT its schema (the tables then live in the default schema: session metadata must find them there too)"""
    def f(x):
        if isinstance(x, ir.T) and x.schema == "s":
            return ir.T(None, x.name, x.alias, x.as_kw)
        if isinstance(x, (ir.Col, ir.Star)) and x.qual and x.qual.startswith("s."):
            return type(x)(x.qual[2:], x.name) if isinstance(x, ir.Col) else ir.Star(x.qual[2:])
        return x

    return [ir.map_ir(s_, f) for s_ in stmts]


def reference_paths(stmts, use_provider):
    """compose the per-statement reference edges; returns sorted list of simple root->leaf paths (lists of printed column names)"""
    md = {}
    edges = set()
    for st_ in stmts:
        S, T, pairs = ir.expected(st_, md if use_provider else None)
        for a, b in pairs:
            edges.add((a, b))
        # what this statement taught the session: the columns it produced for its target
        tcols = []
        for a, b in pairs:
            c = b.rsplit(".", 1)[1]
            if c not in tcols and c != "*":
                tcols.append(c)
        if tcols:
            md[T[0]] = tcols
    nodes = {n for e in edges for n in e}
    succ = {}
    for a, b in edges:
        succ.setdefault(a, set()).add(b)
    roots = sorted(n for n in nodes if not any(b == n for _, b in edges))
    paths = []

    def walk(n, acc):
        if n not in succ:
            paths.append(acc)
            return
        for m in sorted(succ[n]):
            if m not in acc:
                walk(m, acc + [m])

    for r in roots:
        walk(r, [r])
    return sorted(paths)


def actual_paths(sql, use_provider):
    try:
        md = {"s.__truthy__": ["x"]} if use_provider else None
        if use_provider == "stale":
            # the provider's catalog still describes s.w1 as it was before the script rebuilt it: what the script defines must win
            md["s.w1"] = ["old1", "old2"]
        lr = observe.runner_of(sql, "ansi", metadata=md)
        return sorted([observe.col_str(c) for c in p] for p in lr.get_column_lineage(exclude_subquery_columns=True))
    except Exception as e:  # noqa
        return {"EXC": observe.exc_name(e), "msg": str(e)[:200]}


def compare(exp, got):
    if isinstance(got, dict):
        return {"what": "script raises", "exc": got["EXC"], "msg": got["msg"]}
    if exp != got:
        se, sg = {tuple(p) for p in exp}, {tuple(p) for p in got}
        return {"what": "reported paths differ from the composition of the per-statement dataflows", "missing": [list(p) for p in sorted(se - sg)][:6],
                "extra": [list(p) for p in sorted(sg - se)][:6]}
    return None


def classify(case, detail):
    """K-stale-column-after-redefinition: with a provider, an unqualified column is also attributed to a table that was RE-DEFINED without that column
    (the old definition's column node is still in the graph and the graph-based repair finds it).
    trigger: the script redefines a table (CREATE OR REPLACE) and runs with a provider; symptom: nothing but paths that extend a 'missing' path - one ending
    at a column of the redefined table - by one more hop"""
    import re

    script = case.get("script", "")
    if not case.get("provider") or detail.get("what") != "reported paths differ from the composition of the per-statement dataflows":
        return None
    redefined = {m.lower() for m in re.findall(r"CREATE OR REPLACE (?:TABLE|VIEW) ([\w.]+)", script)}
    extra, missing = [list(p) for p in detail.get("extra", [])], [list(p) for p in detail.get("missing", [])]
    if not redefined or not extra:
        return None
    for p in extra:
        if len(p) < 2 or p[-2].rsplit(".", 1)[0].replace("<default>.", "") not in redefined or p[:-1] not in missing:
            return None
    if any(m not in [p[:-1] for p in extra] for m in missing):
        return None
    return "K-stale-column-after-redefinition@C04"


def _worker(payload):
    shard, n, ctx = payload
    res = runner.Res()

    def body(case, res_):
        stmts, needs_provider = build(case)
        use_provider = case[1]
        if needs_provider and not use_provider:
            return None
        unq = case[0][0][1][0] % 4 == 0  # a quarter of the scripts without schema qualification (decided by a drawn value)
        if unq:
            stmts = unqualify(stmts)
        sqls = [ir.r_stmt(s) for s in stmts]
        for s_, q_ in zip(stmts, sqls):
            if not C01.accepted(s_, q_, "ansi"):
                res_.discard("parser_divergent_or_rejected")
                return None
        script = ";\n".join(sqls)
        exp = reference_paths(stmts, use_provider)
        nt = any(len(p) >= 3 for p in exp)
        c = {"script": script, "provider": use_provider, "expected_paths": exp}
        res_.case((script, use_provider), nt, labels=["provider" if use_provider else "no_provider", f"statements={len(stmts)}"] + (["unqualified_tables"] if unq else []) +
                  (["needs_session_metadata"] if needs_provider else []) + (["path>=4"] if any(len(p) >= 4 for p in exp) else []),
                  sample=c if len(script) < 500 else None)
        d = compare(exp, actual_paths(script, use_provider))
        if d is None:
            return None
        fid = classify(c, d)
        if fid and fid in ctx.active:
            res_.known(fid, c)
            return None
        if os.environ.get("VERIF_COLLECT"):
            res_.known("UNLISTED | " + d["what"] + " | provider=" + str(use_provider) + " | needs=" + str(needs_provider), c)
            return None
        return {"kind": "chain", "case": c, "detail": d}

    runner.hyp_run(strategy(), body, res, seed=runner.derive_seed(ctx.seed, "C04", shard), max_examples=n, ctx=ctx)
    return res


# ------------------------------------------------------------------------------------------ pattern stream (bounded-exhaustive)
OPS7 = ["defA", "defB", "insA", "star", "named", "unq", "ins_nolist"]
OPS5 = ["defA", "defB", "star", "named", "ins_nolist"]


def pattern_script(ops, use_provider):
    """statements for a sequence of operations on ONE table s.w1 whose definition changes over the history; None = not well-formed"""
    C, I = ir.Col, ir.Item
    cur = None  # current column list of s.w1
    out = []
    k = 0
    unq_used = False
    for op in ops:
        k += 1
        if op == "defA":
            out.append(ir.Ctas(Tn("w1"), ir.Select((I(C("s.b1", "x1"), "p1", True), I(C("s.b1", "x2"), "p2", True)), (ir.FromGroup(Tn("b1")),)), "CREATE TABLE", False))
            cur = ["p1", "p2"]
        elif op == "defB":
            if cur is None:
                return None
            out.append(ir.Ctas(Tn("w1"), ir.Select((I(C("s.b2", "x1"), "q1", True),), (ir.FromGroup(Tn("b2")),)), "CREATE OR REPLACE TABLE", False))
            cur = ["q1"]
        elif op == "insA":
            if cur not in (None, ["p1", "p2"]):
                return None
            out.append(ir.Insert(Tn("w1"), ("p1", "p2"), ir.Select((I(C("s.b3", "x1"), "p1", True), I(C("s.b3", "x3"), "p2", True)), (ir.FromGroup(Tn("b3")),)), "INSERT INTO", False))
            cur = ["p1", "p2"]
        elif op == "ins_nolist":
            # INSERT without column list: named by position from what the session knows about the target (with a provider), else by the select list
            if cur is None or len(cur) != 2:
                return None
            out.append(ir.Insert(Tn("w1"), None, ir.Select((I(C("s.b3", "x2")), I(C("s.b3", "x3"))), (ir.FromGroup(Tn("b3")),)), "INSERT INTO", False))
            if not use_provider:
                cur = ["x2", "x3"]  # the statement defines these columns for the session when nothing names the positions
        elif op == "star":
            out.append(ir.Ctas(Tn(f"r{k}"), ir.Select((I(ir.Star(None)),), (ir.FromGroup(Tn("w1")),)), "CREATE TABLE", False))
        elif op == "named":
            if cur is None:
                return None
            out.append(ir.Insert(Tn(f"r{k}"), ("n1",), ir.Select((I(C("s.w1", cur[0]), "n1", True),), (ir.FromGroup(Tn("w1")),)), "INSERT INTO", False))
        elif op == "unq":
            if cur is None or unq_used or not use_provider:
                return None
            unq_used = True
            out.append(ir.Insert(Tn(f"r{k}"), ("u1",), ir.Select((I(C(None, cur[0]), "u1", True),), (ir.FromGroup(Tn("w1"), (ir.Join("JOIN", Tn("b3"), ("on", ir.Cmp(C("s.w1", cur[0]), "=", C("s.b3", "x1")))),)),)), "INSERT INTO", False))
    if not any(op in ("star", "named", "unq") for op in ops) or not any(op.startswith(("def", "ins")) for op in ops):
        return None
    return out


def pattern_sequences(ctx):
    import itertools

    for n in (2, 3):
        for ops in itertools.product(OPS7, repeat=n):
            yield ops
    for ops in itertools.product(OPS5, repeat=4):
        yield ops
    if not ctx.quick:
        for ops in itertools.product(OPS5, repeat=5):
            yield ops


def reference_paths_pattern(stmts, use_provider):
    """as reference_paths, but the session's knowledge of a table is REPLACED by each statement that defines columns for it; without a provider an
    INSERT without column list defines the select list's names"""
    return reference_paths(stmts, use_provider)


def _pattern_worker(payload):
    shard, nshards, ctx = payload
    res = runner.Res()
    idx = 0
    for ops in pattern_sequences(ctx):
        for use_provider in (False, True, "stale"):
            idx += 1
            if idx % nshards != shard:
                continue
            if use_provider == "stale" and ops[0] != "defA":
                continue  # stale catalog: only histories that start by (re)building the table (before that the catalog legitimately answers)
            stmts = pattern_script(ops, use_provider)
            if stmts is None:
                res.discard("pattern_not_well_formed")
                continue
            unq = use_provider is True and idx % 2 == 0  # every other provider history also without schema qualification
            if unq:
                stmts = unqualify(stmts)
            if ctx.out_of_time():
                res.budget_exhausted = True
                return res
            script = ";\n".join(ir.r_stmt(s_) for s_ in stmts)
            exp = reference_paths(stmts, use_provider)
            c = {"script": script, "provider": use_provider, "expected_paths": exp, "ops": list(ops)}
            res.case((script, use_provider), any(len(p) >= 3 for p in exp), labels=["pattern", ("provider_with_stale_catalog" if use_provider == "stale" else "provider") if use_provider else "no_provider", f"ops={len(ops)}"] + (["unqualified_tables"] if unq else []) +
                     (["redefinition_then_read"] if "defB" in ops and ops.index("defB") < len(ops) - 1 else []), sample=c)
            d = compare(exp, actual_paths(script, use_provider))
            if d is None:
                continue
            fid = classify(c, d)
            if fid and fid in ctx.active:
                res.known(fid, c)
            elif os.environ.get("VERIF_COLLECT"):
                res.known("UNLISTED pattern | " + d["what"] + " | provider=" + str(use_provider) + " | " + " ".join(ops), c)
            elif len(res.violations) < 4:
                res.violation("pattern", c, d)
    return res


def replay(case):
    d = compare(sorted(case["expected_paths"]), actual_paths(case["script"], case["provider"]))
    return None if d is None else {"kind": "replay", "case": case, "detail": d}


def run(ctx):
    n = ctx.n(1600, 40000)
    res = runner.merge_all(runner.pmap(_worker, [(i, n // runner.NCPU, ctx) for i in range(runner.NCPU)]))
    nshards = runner.NCPU * 2
    res.merge(runner.merge_all(runner.pmap(_pattern_worker, [(i, nshards, ctx) for i in range(nshards)])))
    return res
