"""C04 - column lineage chains across statements.

Generator : scripts of 2-4 IR statements; statement i writes s.w<i> with a known column list (INSERT with explicit list, or CTAS /
            CREATE VIEW whose select items are all aliased) and reads base tables and / or EARLIER targets (chain shapes linear, diamond,
            fan-in, fan-out, re-write of an intermediate arise from the drawn read sets); every target column is an expression over 1-2
            available columns, referenced with qualifiers; optionally through a derived table.  Each script runs without a provider and
            with a truthy DummyMetaDataProvider; the provider variants add 'SELECT *' from an earlier target and an unqualified column
            that only the earlier target defines.
Oracle    : relational composition - union of the per-statement reference edges (vlib/sqlir.expected, with the session metadata the
            earlier statements established) into one graph; the reported paths with subquery columns removed must be EXACTLY the simple
            root -> leaf paths of that graph (columns not consumed downstream end at the intermediate table).
"""
from __future__ import annotations

import json
import os

from vlib import observe, runner
from vlib import sqlir as ir
from vlib.props import C01

ID = "C04"
LEVEL = "exploration"
RULE = ("case = script of 2-4 generated statements (read set over base tables and earlier targets x column-overlap pattern x expression form x statement "
        "kind {INSERT (cols), CTAS, CREATE VIEW} x optional derived table x optional re-write of an earlier target), analysed without provider and with a "
        "truthy dict provider (+ star / unqualified-column variants that need the session metadata). Non-trivial = at least one reported path has >= 3 nodes "
        "crossing a statement boundary; distinct = distinct (script text, provider).")
ASSUMPTIONS = [
    "references across statements are qualified, so the per-statement reference semantics is exact; unqualified names are fresh per scope (same-named unresolved columns of different statements merge: finding K-unres-merge, excluded by construction)",
    "star over an earlier target and unqualified columns it defines are generated only with a provider in use (the property states them for that case)",
    "paths are compared after removing subquery columns (get_column_lineage(exclude_subquery_columns=True))",
]

BASE = [("s", "b1"), ("s", "b2"), ("s", "b3")]
BASE_COLS = ["x1", "x2", "x3"]


def Tn(name):
    return ir.T("s", name)


def strategy():
    from hypothesis import strategies as st

    expr_form = st.integers(0, 6)
    col_pick = st.tuples(st.integers(0, 50), st.integers(0, 50))
    stmt = st.tuples(
        st.integers(0, 2),                                   # kind: insert(cols) / ctas / view
        st.lists(st.integers(0, 9), min_size=1, max_size=3),  # read set picks (base tables and earlier targets)
        st.lists(st.tuples(expr_form, col_pick), min_size=1, max_size=3),  # one entry per target column
        st.integers(0, 5),                                   # 0: wrap the source in a derived table ; 1: rewrite an earlier target
        st.integers(0, 3),                                   # provider-only variant: 0 none, 1 star from earlier target, 2 unqualified column
    )
    return st.tuples(st.lists(stmt, min_size=2, max_size=4), st.booleans())


def build(case):
    """returns (list of IR statements, list of per-statement column lists, needs_provider)"""
    stmts_spec, use_provider = case
    targets = []  # (name, cols)
    out = []
    needs_provider = False
    unq_names = set()  # a name is used unqualified at most once per script (same-named unresolved columns of different statements merge: K-unres-merge)
    for i, (kind, reads, cols_spec, wrap, variant) in enumerate(stmts_spec):
        avail = [(f"{s}.{n}", list(BASE_COLS)) for s, n in BASE] + [(f"s.{n}", list(c)) for n, c in targets]
        # read set: at least one earlier target when there is one (chains), plus optional others
        picks = []
        if targets:
            picks.append(len(BASE) + reads[0] % len(targets))
        for r in reads[1:] if targets else reads:
            picks.append(r % len(avail))
        picks = list(dict.fromkeys(picks))[:3]
        rels = [avail[p] for p in picks]
        rewrite_target = wrap == 1 and len(targets) >= 2 and i >= 2
        if rewrite_target:
            tname, tcols = targets[0]
            rels = [r for r in rels if r[0] != f"s.{tname}"] or [avail[0]]
            ncols = len(tcols)
        else:
            tname = f"w{i + 1}"
            ncols = len(cols_spec)
            tcols = [f"y{i + 1}{j + 1}" for j in range(ncols)]
        flat = [(r[0], c) for r in rels for c in r[1]]
        items = []
        star_variant = use_provider and variant == 1 and targets and not rewrite_target and kind != 0 and len(rels) == 1 and rels[0][0].startswith("s.w")
        unq_variant = use_provider and variant == 2 and targets and not rewrite_target and len(rels) >= 2 and rels[0][0].startswith("s.w")
        if unq_variant:
            cand = rels[0][1][cols_spec[0][1][0] % len(rels[0][1])]
            if cand in unq_names:
                unq_variant = False
            else:
                unq_names.add(cand)
        for j in range(ncols):
            form, (a, b) = cols_spec[j % len(cols_spec)]
            ca, cb = flat[a % len(flat)], flat[b % len(flat)]
            A, B = ir.Col(ca[0], ca[1]), ir.Col(cb[0], cb[1])
            if unq_variant and j == 0:
                # an unqualified column that only the earlier target defines (its names y.. occur in no other relation of the scope)
                A = ir.Col(None, rels[0][1][a % len(rels[0][1])])
                needs_provider = True
                form = 0
            e = [A, ir.Func("coalesce", (A, B)), ir.Bin("+", A, B), ir.Case(((ir.Cmp(A, ">", ir.Lit("0")), B),), A), ir.Cast(A, "int", "cast"),
                 ir.Func("max", (ir.Bin("*", A, ir.Lit("2")),)), ir.Win("sum", (A,), (B,), (A,))][form % 7]
            items.append(ir.Item(e, tcols[j], True))
        groups = []
        first = Tn(rels[0][0].split(".")[1])
        joins = tuple(ir.Join("JOIN", Tn(r[0].split(".")[1]), ("on", ir.Cmp(ir.Col(rels[0][0], rels[0][1][0]), "=", ir.Col(r[0], r[1][0])))) for r in rels[1:])
        groups.append(ir.FromGroup(first, joins))
        if star_variant:
            q = ir.Select((ir.Item(ir.Star(None)),), tuple(groups))
            tcols = list(rels[0][1])
            needs_provider = True
        else:
            q = ir.Select(tuple(items), tuple(groups))
            if wrap == 0 and not unq_variant:
                # through a derived table: inner select passes the items, outer selects them by name
                q = ir.Select(tuple(ir.Item(ir.Col(f"d{i + 1}", c), c, True) for c in tcols), (ir.FromGroup(ir.Derived(q, f"d{i + 1}", True)),))
        tgt = Tn(tname)
        if kind == 0 or rewrite_target:
            st_ = ir.Insert(tgt, tuple(tcols) if not star_variant else None, q, "INSERT INTO", False)
        elif kind == 1:
            st_ = ir.Ctas(tgt, q, "CREATE TABLE", False)
        else:
            st_ = ir.CreateView(tgt, None, q, "CREATE VIEW", False)
        out.append(st_)
        if not rewrite_target:
            targets.append((tname, tcols))
    return out, needs_provider


def reference_paths(stmts, use_provider):
    """compose the per-statement reference edges; returns sorted list of simple root->leaf paths (lists of printed column names)"""
    md = {}
    edges = set()
    for st_ in stmts:
        S, T, pairs = ir.expected(st_, md if use_provider else None)
        for a, b in pairs:
            edges.add((a, b))
        # what this statement taught the session: the columns it produced for its target
        tcols = []
        for a, b in pairs:
            c = b.rsplit(".", 1)[1]
            if c not in tcols and c != "*":
                tcols.append(c)
        if tcols:
            md[T[0]] = tcols
    nodes = {n for e in edges for n in e}
    succ = {}
    for a, b in edges:
        succ.setdefault(a, set()).add(b)
    roots = sorted(n for n in nodes if not any(b == n for _, b in edges))
    paths = []

    def walk(n, acc):
        if n not in succ:
            paths.append(acc)
            return
        for m in sorted(succ[n]):
            if m not in acc:
                walk(m, acc + [m])

    for r in roots:
        walk(r, [r])
    return sorted(paths)


def actual_paths(sql, use_provider):
    try:
        lr = observe.runner_of(sql, "ansi", metadata={"s.__truthy__": ["x"]} if use_provider else None)
        return sorted([observe.col_str(c) for c in p] for p in lr.get_column_lineage(exclude_subquery_columns=True))
    except Exception as e:  # noqa
        return {"EXC": observe.exc_name(e), "msg": str(e)[:200]}


def compare(exp, got):
    if isinstance(got, dict):
        return {"what": "script raises", "exc": got["EXC"], "msg": got["msg"]}
    if exp != got:
        se, sg = {tuple(p) for p in exp}, {tuple(p) for p in got}
        return {"what": "reported paths differ from the composition of the per-statement dataflows", "missing": [list(p) for p in sorted(se - sg)][:6],
                "extra": [list(p) for p in sorted(sg - se)][:6]}
    return None


def classify(case, detail):
    return None


def _worker(payload):
    shard, n, ctx = payload
    res = runner.Res()

    def body(case, res_):
        stmts, needs_provider = build(case)
        use_provider = case[1]
        if needs_provider and not use_provider:
            return None
        sqls = [ir.r_stmt(s) for s in stmts]
        for s_, q_ in zip(stmts, sqls):
            if not C01.accepted(s_, q_, "ansi"):
                res_.discard("parser_divergent_or_rejected")
                return None
        script = ";\n".join(sqls)
        exp = reference_paths(stmts, use_provider)
        nt = any(len(p) >= 3 for p in exp)
        c = {"script": script, "provider": use_provider, "expected_paths": exp}
        res_.case((script, use_provider), nt, labels=["provider" if use_provider else "no_provider", f"statements={len(stmts)}"] +
                  (["needs_session_metadata"] if needs_provider else []) + (["path>=4"] if any(len(p) >= 4 for p in exp) else []),
                  sample=c if len(script) < 500 else None)
        d = compare(exp, actual_paths(script, use_provider))
        if d is None:
            return None
        fid = classify(c, d)
        if fid and fid in ctx.active:
            res_.known(fid, c)
            return None
        if os.environ.get("VERIF_COLLECT"):
            res_.known("UNLISTED | " + d["what"] + " | provider=" + str(use_provider) + " | needs=" + str(needs_provider), c)
            return None
        return {"kind": "chain", "case": c, "detail": d}

    runner.hyp_run(strategy(), body, res, seed=runner.derive_seed(ctx.seed, "C04", shard), max_examples=n, ctx=ctx)
    return res


def replay(case):
    d = compare(sorted(case["expected_paths"]), actual_paths(case["script"], case["provider"]))
    return None if d is None else {"kind": "replay", "case": case, "detail": d}


def run(ctx):
    n = ctx.n(1600, 40000)
    return runner.merge_all(runner.pmap(_worker, [(i, n // runner.NCPU, ctx) for i in range(runner.NCPU)]))
