"""C06 - column lineage is well-formed and consistent with table lineage.

Invariants over every result of the pool (vlib/pool.py), all through public API:
  path     every reported column path has >= 2 nodes; consecutive nodes are joined by an exported column-level edge; the first
           node has no incoming exported edge
  leaf     the owner of the last column is a Table that is a target or intermediate table
  root     every resolved source column's table is a source or intermediate table of the script
  connect  the table-level export connects the root's table to the leaf's table
  graph    on the combined graph rebuilt through SQLLineageHolder.of(provider, *statement holders) every node is retrievable
           (has_node) and every edge too (has_edge) - i.e. hashes are stable after insertion - and a column with an owner
           has at most one incoming has_column edge, which comes from that owner
"""
from __future__ import annotations

import json
import os
import re

from vlib import observe, pool, runner, taps

ID = "C06"
LEVEL = "exploration"
RULE = ("case = one analysis result (script, dialect, metadata) from the pool: harvested test-suite SQL in its own dialect and under ansi with the "
        "tests' metadata, TPC-DS scripts, generated IR statements / SQL histories / set-heavy / chained scripts; all listed invariants are evaluated. "
        "Non-trivial = the result has a path of >= 3 nodes or >= 2 target columns; distinct = distinct (script, dialect, metadata).")
ASSUMPTIONS = [
    "owner check is 'at most one has_column owner edge, equal to the column's owner': columns attributed late through metadata carry an owner without an owner edge, which the property's 'exactly one owner' does not forbid",
    "hop/edge comparison is skipped for cyclic column graphs (self-insert)",
    "results that raise a library exception are only counted",
]


def check_result(case):
    from sqllineage.core.holders import SQLLineageHolder
    from sqllineage.core.metadata.dummy import DummyMetaDataProvider
    from sqllineage.core.models import Column, Path, SubQuery, Table
    from sqllineage.exceptions import SQLLineageException

    problems = []
    try:
        with taps.statement_tap() as log:
            lr = observe.runner_of(case["sql"], case["dialect"], metadata=case.get("metadata"))
            S = {str(t) for t in lr.source_tables}
            T = {str(t) for t in lr.target_tables}
            I = {str(t) for t in lr.intermediate_tables}
            paths = lr.get_column_lineage()
            col = lr.to_cytoscape("column")
            tab = lr.to_cytoscape()
            nstmt = len(lr.statements())
    except SQLLineageException as e:
        return None, {"raises": type(e).__name__}
    except Exception as e:  # noqa  an escaping internal error (e.g. K-rename-multi NetworkXError) is C10's / C03's matter: no result to check here
        return None, {"raises": "escape:" + type(e).__name__}
    cedges = {(e["data"]["source"], e["data"]["target"]) for e in col if "source" in e["data"]}
    incoming = {b for a, b in cedges}
    tedges = {(e["data"]["source"], e["data"]["target"]) for e in tab if "source" in e["data"]}
    reach = _closure(tedges)
    stats = {"max_path": max([len(p) for p in paths] or [0]), "targets": len({str(p[-1]) for p in paths})}
    # 'a column nothing feeds' is judged on the graph itself (two distinct nodes - columns of different subqueries that share an
    # alias in different statements - print alike, so the exported ids cannot tell them apart); exported ids only as a fallback
    holders = [h for sql, h in log][-nstmt:] if nstmt else []
    try:
        G = SQLLineageHolder.of(DummyMetaDataProvider(case.get("metadata") or {}), *holders).graph
    except Exception:  # noqa
        G = None

    def _fed(c):
        if G is None or c not in G:
            return str(c) in incoming
        return any(isinstance(u, Column) for u in G.predecessors(c))

    for p in paths:
        names = [observe.col_str(c) for c in p]
        if len(p) < 2:
            owner = p[0].parent
            problems.append(("path", {"one_node_path": names, "owner_is_written_table": isinstance(owner, Table) and str(owner) in T | I}))
            continue
        for a, b in zip(p, p[1:]):
            if (str(a), str(b)) not in cedges:
                problems.append(("path", {"hop_without_exported_edge": [str(a), str(b)]}))
                break
        if _fed(p[0]) and len({str(c) for c in p}) == len(p):
            problems.append(("path", {"first_node_has_incoming_edge": names[0]}))
        leaf = p[-1]
        if not isinstance(leaf.parent, Table):
            problems.append(("leaf", {"leaf_owner_not_a_table": names[-1], "owner_type": type(leaf.parent).__name__}))
        elif str(leaf.parent) not in T | I:
            problems.append(("leaf", {"leaf_table_not_target_or_intermediate": str(leaf.parent)}))
        root = p[0]
        if isinstance(root.parent, Table):
            if str(root.parent) not in S | I:
                problems.append(("root", {"root_table_not_read_by_script": str(root.parent), "column": names[0]}))
            elif isinstance(leaf.parent, Table) and str(root.parent) != str(leaf.parent) and (str(root.parent), str(leaf.parent)) not in reach:
                problems.append(("connect", {"no_table_level_connection": [str(root.parent), str(leaf.parent)],
                                             "via": sorted({str(c.parent) for c in p[1:-1] if isinstance(c.parent, Table)})}))
    # combined graph rebuilt through the public assembler
    try:
        H = SQLLineageHolder.of(DummyMetaDataProvider(case.get("metadata") or {}), *holders)
        g = H.graph
        for n in list(g.nodes):
            if not g.has_node(n) or n not in g:
                problems.append(("graph", {"node_not_retrievable": str(n)}))
                break
            twin = None
            if isinstance(n, Column) and n.parent is not None:
                twin = Column(n.raw_name)
                twin.parent = n.parent
                if twin == n and hash(twin) != hash(n):
                    problems.append(("graph", {"equal_columns_hash_differently": str(n)}))
                    break
        for u, v in list(g.edges):
            if not g.has_edge(u, v):
                problems.append(("graph", {"edge_not_retrievable": [str(u), str(v)]}))
                break
        for n in g.nodes:
            if isinstance(n, Column) and n.parent is not None:
                owners = [u for u, _, t in g.in_edges(n, data="type") if t == "has_column"]
                if len(owners) > 1 or (owners and owners[0] != n.parent):
                    problems.append(("graph", {"column": str(n), "owner": str(n.parent), "has_column_edges_from": [str(o) for o in owners][:4]}))
                    break
    except SQLLineageException:
        pass
    except Exception as e:  # noqa  e.g. K-rename-multi NetworkXError: C03's matter
        problems.append(("graph", {"rebuild_raised": repr(e)[:200]}))
    return problems, stats


def _closure(edges):
    adj = {}
    for a, b in edges:
        adj.setdefault(a, set()).add(b)
    reach = set()
    for s in adj:
        seen, stack = set(), [s]
        while stack:
            n = stack.pop()
            for m in adj.get(n, ()):
                if m not in seen:
                    seen.add(m)
                    stack.append(m)
        reach |= {(s, t) for t in seen}
    return reach


def classify(case, detail):
    inv = detail.get("invariant", "")
    sql = case.get("sql", "").lower()
    for fid, pred in KNOWN.items():
        if pred(case, sql, inv, detail):
            return fid
    return None


def _involved_tables(d):
    out = set()
    for k in ("leaf_table_not_target_or_intermediate", "root_table_not_read_by_script", "owner"):
        if k in d:
            out.add(d[k])
    for k in ("no_table_level_connection", "has_column_edges_from", "via"):
        out |= set(d.get(k) or [])
    if "column" in d and "owner" not in d:
        pass
    return {t.split(".")[-1] for t in out}


def _values_alias(sql, table):
    name = table.split(".")[-1]
    return bool(name) and table.startswith("<default>.") and re.search(r"\(\s*values\b[^;]*?\)\s*(?:as\s+)?" + re.escape(name) + r"\b", sql, flags=re.S) is not None


def _renamed(sql):
    from vlib.props import C18

    return C18._renamed_tables(sql)


KNOWN = {
    # source-less target columns (DDL column definitions, INSERT (cols) SELECT *, metadata columns without a source) are reported as
    # degenerate one-node paths
    "K-onenode@C06": lambda case, sql, inv, d: inv == "path" and "one_node_path" in d and d.get("owner_is_written_table") is True,
    # after RENAME the columns stay owned by the old table, which is no longer a table of the script
    "K-rename-cols@C06": lambda case, sql, inv, d: "rename" in sql and inv in ("leaf", "root", "connect", "graph", "path")
    and ("one_node_path" in d or "rebuild_raised" in d or bool(_involved_tables(d) & _renamed(sql))),
    "K-lateral-alias@C06": lambda case, sql, inv, d: "lateral view" in sql and inv == "root",
    # the alias of a VALUES derived table is taken for a table
    "K-values-alias@C06": lambda case, sql, inv, d: inv == "root" and _values_alias(sql, d.get("root_table_not_read_by_script", "")),
    # the nested analysis of a scalar subquery returns bare qualifiers: a schema-qualified table (or a 3-part column reference) inside it
    # comes back as <default>.<table> or <default>.<schema>
    "K-scalar-subquery-schema@C06": lambda case, sql, inv, d: inv == "root" and d.get("root_table_not_read_by_script", "").startswith("<default>.")
    and re.search(r"\(\s*select.{0,400}?(\b" + re.escape(d["root_table_not_read_by_script"].split(".")[-1]) + r"\.\w|\w\." +
                  re.escape(d["root_table_not_read_by_script"].split(".")[-1]) + r"\b)", sql, flags=re.S) is not None,
    # a wildcard that could not be wired (star next to other select items / over a mixed scope: K-star-mixed) stays behind as a one-node path
    "K-stranded-wildcard@C06": lambda case, sql, inv, d: inv == "path" and "one_node_path" in d and d["one_node_path"][0].endswith(".*"),
    "K-scalar-select@C06": lambda case, sql, inv, d: inv == "root" and re.search(r"(select|,)\s*\(\s*select\b", sql) is not None,
}


def _worker(payload):
    cases, ctx = payload
    res = runner.Res()
    for c in cases:
        if ctx.out_of_time():
            res.budget_exhausted = True
            break
        problems, stats = check_result(c)
        key = (c["sql"], c["dialect"], json.dumps(c.get("metadata"), sort_keys=True))
        if problems is None:
            res.case(key, False, labels=["origin:" + c["origin"], "raises:" + stats["raises"]])
            continue
        nt = stats["max_path"] >= 3 or stats["targets"] >= 2
        res.case(key, nt, labels=["origin:" + c["origin"]] + (["with_metadata"] if c.get("metadata") else []) + (["path>=3"] if stats["max_path"] >= 3 else []),
                 sample={k: c[k] for k in ("sql", "dialect", "metadata")} if len(c["sql"]) < 300 else None)
        seen_kinds = set()
        for inv, d in problems:
            kind = inv + ":" + next(iter(d))
            if kind in seen_kinds:
                continue
            seen_kinds.add(kind)
            d = dict(d, invariant=inv)
            cc = {k: c[k] for k in ("sql", "dialect", "metadata")}
            fid = classify(cc, d)
            if fid and fid in ctx.active:
                res.known(fid, cc)
            elif os.environ.get("VERIF_COLLECT"):
                res.known("UNLISTED | " + kind + " | " + json.dumps(d)[:140], cc)
            elif len(res.violations) < 4:
                res.violation(inv, dict(cc, invariant=inv), d)
    return res


def replay(case):
    problems, stats = check_result(case)
    if not problems:
        return None
    want = case.get("invariant")
    for inv, d in problems:
        if not want or inv == want:
            return {"kind": inv, "case": case, "detail": dict(d, invariant=inv)}
    return None


def run(ctx):
    cases = pool.all_cases(ctx, ctx.n(400, 6000))
    order = sorted(range(len(cases)), key=lambda i: -len(cases[i]["sql"]))
    chunks = runner.NCPU * 3
    res = runner.merge_all(runner.pmap(_worker, [([cases[i] for i in order[c::chunks]], ctx) for c in range(chunks)]))
    res.extra["pool_size"] = len(cases)
    return res
