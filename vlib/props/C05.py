"""C05 - a script is analysed as exactly the sequence of its statements.

Generator: 1-5 statements (corpus single statements of one dialect + a fixed pool with ';', '--', '/*' inside string
literals) joined with every separator / noise variant: ';', ';;', blank lines, line / block comments containing ';'
before / after / INSIDE statements, leading and trailing blank or comment-only statements, optional final ';';
for tsql + TSQL_NO_SEMICOLON newline-only separation.
Oracle 1 (splitter): statements() has exactly the generated statements in order (compared after deleting whitespace
         and the trailing ';' - comments must already be gone).
Oracle 2 (differential): tables, table edges and metadata-free column paths of the script equal
         SQLLineageHolder.of(provider, *[holder of each statement analysed alone]) - single holders come from separate
         LineageRunner runs through the statement tap.
"""
from __future__ import annotations

import re

from vlib import corpus, observe, runner, taps

ID = "C05"
LEVEL = "exploration"
RULE = ("script = 1-5 statements drawn from the calibrated single-statement pool of one dialect (corpus + literals containing ; -- /* + generator "
        "statements that share tables: a stride through the C01 skeleton product, every C03 statement kind incl. DROP / RENAME) "
        "x separator variant x inter-statement noise x in-statement comment insertion x leading/trailing noise x final-semicolon choice; "
        "tsql no-semicolon mode: newline-only separation. Non-trivial = >= 2 statements and >= 1 noise element containing a semicolon; "
        "distinct = distinct script text.")
ASSUMPTIONS = [
    "pool statements are corpus texts without ';' or comments of their own that analyse without error when alone (calibrated on the tree under test at run time)",
    "in-statement comments are inserted only at whitespace that lies outside string literals and quoted identifiers (regex tokeniser; statements containing a backslash get none) and never inside a multi-word operator that the dialect lexes as one token",
    "single-statement holders are obtained by wrapping the public LineageAnalyzer.analyze (statement tap)",
]

LITERAL_POOL = [
    "SELECT 'a;b' AS c1, col2 FROM src_lit1 WHERE d = '--x;'",
    "INSERT INTO tgt_lit SELECT col1 FROM src_lit2 WHERE c = '/* ; */' AND e = ';'",
    "INSERT INTO tgt_lit2 SELECT \"we;ird\" FROM src_lit3",
    "SELECT col1 FROM src_lit4 WHERE x = 'it''s ; here'",
]
SEPS = [";", ";\n", " ;\n", ";;", ";\n;\n", ";\n\n\n", "; -- c1 ; still comment\n", "; /* b ; c */ ", ";\n/* only ; comment */;\n",
        ";\n-- only comment ; x\n;\n", " ; "]
LEADS = ["", "\n\n", "-- lead ; comment\n", "/* lead ; */ ", ";\n", "-- only\n;\n", "  \t"]
TAILS = ["", ";", ";\n", ";\n-- tail ; comment", "; /* tail ; */", ";;", "\n", ";\n\n;\n"]
INNER = ["/* in ; ner */", "-- inner ; comment\n", "/**/", "/* select * from zz; */"]
WS_TOK = re.compile(r"\s+|--[^\n]*|/\*.*?\*/|'(?:[^']|'')*'|\"[^\"]*\"|`[^`]*`|\[[^\]]*\]|\w+|.", re.S)
_state = {}


def norm_stmt(s: str) -> str:
    s = re.sub(r"\s+", "", s)
    return s.rstrip(";")


def _calib_worker(payload):
    out = []
    for sql, dialect in payload:
        d = observe.dump(sql, dialect, full=False)
        out.append("EXC" not in d and d.get("n") == 1)
    return out


def generated_statements():
    """generator statements that SHARE tables, so that scripts built from them have intermediates, re-writes, drops and renames to combine:
    a stride through the C01 skeleton product and every abstract statement kind of C03 (reads x write over {a,b,c}, DROP, RENAME) rendered
    to SQL"""
    from vlib import sqlir as ir
    from vlib.props import C01, C03

    out = []
    for i, (stmt, feats) in enumerate(C01.skeletons((0, 1))):
        if i % 97 == 5 and not isinstance(stmt, ir.Noop):
            out.append((ir.r_stmt(stmt), "ansi"))
    for k, kind in enumerate(C03.KINDS):
        for d in ("ansi", "mysql"):
            out.append((C03.render_stmt(kind, k, d), d))
    return out


def pools():
    if "pools" not in _state:
        cands = {}
        for e in corpus.plain():
            sql = e["sql"].strip().rstrip(";").strip()
            if ";" in sql or "--" in sql or "/*" in sql or "#" in sql or not sql or "{" in sql or len(sql) > 1200:
                continue
            if not e.get("sqlfluff", True):
                continue
            cands.setdefault(e["dialect"], []).append(sql)
        for s in LITERAL_POOL:
            cands.setdefault("ansi", []).append(s)
        for s, d in generated_statements():
            cands.setdefault(d, []).append(s)
        for d in cands:
            cands[d] = sorted(set(cands[d]))
        items = [(s, d) for d in sorted(cands) for s in cands[d]]
        chunks = [items[i::runner.NCPU * 2] for i in range(runner.NCPU * 2)]
        oks = runner.pmap(_calib_worker, chunks)
        pools_ = {}
        for chunk, flags in zip(chunks, oks):
            for (s, d), ok in zip(chunk, flags):
                if ok:
                    pools_.setdefault(d, []).append(s)
        for d in pools_:
            pools_[d].sort()
        _state["pools"] = {d: v for d, v in pools_.items() if len(v) >= 3}
    return _state["pools"]


def insert_inner(stmt, where, what):
    """insert a comment at the `where`-th whitespace token outside literals"""
    if "\\" in stmt:
        return stmt, False  # backslash escapes inside literals are dialect-specific: the regex tokeniser cannot tell where such a literal ends
    toks = WS_TOK.findall(stmt)
    ws = [i for i, t in enumerate(toks) if t.isspace() and 0 < i < len(toks) - 1]
    if not ws:
        return stmt, False
    i = ws[where % len(ws)]
    # keep multi-word operators such as "IS NOT", "NOT IN", "GROUP BY" intact is not required by SQL: a comment between
    # any two tokens is whitespace. (A newline must follow a line comment - the noise strings include it.)
    toks[i] = toks[i] + what + " "  # the original whitespace is kept: it may be the newline that ends a line comment
    return "".join(toks), True


def build(case, pools_):
    dialect, idxs, seps, lead, tail, inner = case
    pool = pools_[dialect]
    stmts = [pool[i % len(pool)] for i in idxs]
    texts = list(stmts)
    semis = 0
    for pos, where, what in inner:
        k = pos % len(texts)
        texts[k], ok = insert_inner(texts[k], where, INNER[what])
        if ok and ";" in INNER[what]:
            semis += 1
    script = LEADS[lead]
    semis += ";" in LEADS[lead].replace(";\n", "", 1) or "; " in LEADS[lead]
    for k, t in enumerate(texts):
        script += t
        if k < len(texts) - 1:
            sep = SEPS[seps[k] % len(SEPS)]
            script += sep
            semis += sep.count(";") > 1
    script += TAILS[tail]
    semis += TAILS[tail].count(";") > 1 or "tail ;" in TAILS[tail]
    semis += sum(1 for s in stmts if ";" in s)
    return dialect, stmts, texts, script, semis


def strategy(pools_):
    from hypothesis import strategies as st

    dialects = sorted(pools_)
    weights = [d for d in dialects for _ in range(6 if d == "ansi" else 1)]
    n = st.integers(1, 5)
    return st.tuples(
        st.sampled_from(weights),
        n.flatmap(lambda k: st.lists(st.integers(0, 10 ** 4), min_size=k, max_size=k)),
        st.lists(st.integers(0, len(SEPS) - 1), min_size=5, max_size=5),
        st.integers(0, len(LEADS) - 1), st.integers(0, len(TAILS) - 1),
        st.lists(st.tuples(st.integers(0, 4), st.integers(0, 200), st.integers(0, len(INNER) - 1)), max_size=3),
    )


def single_holders(stmts, dialect):
    from sqllineage.runner import LineageRunner

    holders = []
    for s in stmts:
        with taps.statement_tap() as log:
            LineageRunner(s, dialect=dialect).source_tables
        outer = [h for sql, h in log]
        # nested runners (scalar subqueries are analysed by an inner runner) log first; the statement's own holder is last
        holders.append(outer[-1])
    return holders


def view_of_holder(H):
    g = H.table_lineage_graph
    return {
        "S": sorted(str(t) for t in H.source_tables), "T": sorted(str(t) for t in H.target_tables),
        "I": sorted(str(t) for t in H.intermediate_tables),
        "E": sorted([str(u), str(v)] for u, v in g.edges),
        "C": sorted([observe.col_str(c) for c in p] for p in H.get_column_lineage()),
    }


def view_of_runner(lr):
    E = sorted([observe.canon(e["data"]["source"]), observe.canon(e["data"]["target"])] for e in lr.to_cytoscape() if "source" in e["data"])
    return {"S": [str(t) for t in lr.source_tables], "T": [str(t) for t in lr.target_tables], "I": [str(t) for t in lr.intermediate_tables],
            "E": E, "C": sorted(observe.paths(lr))}


def check(dialect, stmts, script, tsql_mode=False, texts=None):
    from sqllineage.config import SQLLineageConfig
    from sqllineage.core.holders import SQLLineageHolder
    from sqllineage.core.metadata.dummy import DummyMetaDataProvider
    from sqllineage.runner import LineageRunner

    try:
        if tsql_mode:
            with SQLLineageConfig(TSQL_NO_SEMICOLON=True):
                lr = LineageRunner(script, dialect=dialect)
                reported = lr.statements()
                got = view_of_runner(lr)
        else:
            lr = LineageRunner(script, dialect=dialect)
            reported = lr.statements()
            got = view_of_runner(lr)
    except Exception as e:  # noqa
        return {"what": "script raised although every statement analyses alone", "exc": observe.exc_name(e), "msg": str(e)[:300]}
    exp_list = [norm_stmt(s) for s in stmts]
    got_list = [norm_stmt(s) for s in reported]
    if exp_list != got_list:
        return {"what": "reported statements differ from the script's statements", "expected": stmts, "reported": reported}
    # "each statement analysed on its own" = the statement as it stands in the script (with its in-statement comments)
    holders = single_holders(texts or stmts, dialect)
    exp = view_of_holder(SQLLineageHolder.of(DummyMetaDataProvider(), *holders))
    for k in ("S", "T", "I", "E", "C"):
        if exp[k] != got[k]:
            return {"what": f"script lineage differs from the combination of its statements ({k})", "combined": exp[k], "script": got[k]}
    return None


def classify(case, detail):
    return None


def _body(ctx, pools_):
    def body(case, res):
        dialect, stmts, texts, script, semis = build(case, pools_)
        nt = len(stmts) >= 2 and semis >= 1
        c = {"dialect": dialect, "stmts": stmts, "texts": texts, "script": script}
        res.case(script + "|" + dialect, nt, labels=["dialect:" + dialect, f"n={len(stmts)}"] + (["noise_with_semicolon"] if semis else []),
                 sample=c)
        d = check(dialect, stmts, script, texts=texts)
        if d is None:
            return None
        fid = classify(c, d)
        if fid and fid in ctx.active:
            res.known(fid, c)
            return None
        return {"kind": "script", "case": c, "detail": d}

    return body


def _worker(payload):
    shard, n, ctx, pools_ = payload
    res = runner.Res()
    runner.hyp_run(strategy(pools_), _body(ctx, pools_), res, seed=runner.derive_seed(ctx.seed, "C05", shard), max_examples=n, ctx=ctx)
    return res


# ------------------------------------------------------------------------------------------ tsql no-semicolon mode
TSQL_POOL = [
    "SELECT a, b FROM ts1", "INSERT INTO tt1 SELECT a FROM ts2", "INSERT INTO tt2 (c1) SELECT x.a FROM ts3 x JOIN ts4 y ON x.k = y.k",
    "SELECT * INTO tt3 FROM ts5", "UPDATE tt4 SET a = 1 WHERE b = 2", "DELETE FROM tt5 WHERE a = 1",
    "INSERT INTO tt6 SELECT a FROM tt1 UNION ALL SELECT a FROM tt2", "CREATE TABLE tt7 (c1 int)", "DROP TABLE tt8",
    "SELECT 'x;y' AS c FROM ts6",
]
TSQL_SEPS = ["\n", "\n\n", "\n-- c ; x\n", " \n", "\n/* c ; */\n", ";\n"]


def tsql_strategy():
    from hypothesis import strategies as st

    return st.tuples(st.lists(st.integers(0, len(TSQL_POOL) - 1), min_size=1, max_size=5),
                     st.lists(st.integers(0, len(TSQL_SEPS) - 1), min_size=5, max_size=5), st.booleans())


def _tsql_body(ctx):
    def body(case, res):
        idxs, seps, final = case
        stmts = [TSQL_POOL[i] for i in idxs]
        script = ""
        for k, s in enumerate(stmts):
            script += s
            if k < len(stmts) - 1:
                script += TSQL_SEPS[seps[k]]
        if final:
            script += "\n"
        c = {"dialect": "tsql", "stmts": stmts, "script": script, "tsql_mode": True}
        res.case("TSQL|" + script, len(stmts) >= 2, labels=["tsql_no_semicolon", f"n={len(stmts)}"], sample=c)
        d = check("tsql", stmts, script, tsql_mode=True)
        return None if d is None else {"kind": "tsql", "case": c, "detail": d}

    return body


def _tsql_worker(payload):
    shard, n, ctx = payload
    res = runner.Res()
    runner.hyp_run(tsql_strategy(), _tsql_body(ctx), res, seed=runner.derive_seed(ctx.seed, "C05tsql", shard), max_examples=n, ctx=ctx)
    return res


def replay(case):
    d = check(case["dialect"], case["stmts"], case["script"], tsql_mode=case.get("tsql_mode", False), texts=case.get("texts"))
    return None if d is None else {"kind": "replay", "case": case, "detail": d}


def run(ctx):
    pools_ = pools()
    n = ctx.n(2000, 30000)
    res = runner.merge_all(runner.pmap(_worker, [(i, n // runner.NCPU, ctx, pools_) for i in range(runner.NCPU)]))
    n2 = ctx.n(320, 6000)
    res.merge(runner.merge_all(runner.pmap(_tsql_worker, [(i, n2 // runner.NCPU, ctx) for i in range(runner.NCPU)])))
    res.extra["pool_sizes"] = {d: len(v) for d, v in pools_.items()}
    return res
