"""C02 - single-statement column lineage is exact.

Streams
  skeleton : bounded-exhaustive  select-item kind (13) x scope shape (9) x nesting (0-2) x set-operation arity (1-3) x
             explicit column list (none / INSERT (cols) / CREATE VIEW (cols)), IR values built by nested loops
  random   : Hypothesis statements from vlib/sqlgen.stmt (restricted per DESIGN 3.2 to where the property determines
             the answer), expression depth <= 3, nesting <= 2 (3 in thorough)
Oracle     : vlib/sqlir.expected (scope-resolution interpreter over the IR): the exact set of (root, target column) pairs,
             compared with {(path[0], path[-1])} of get_column_lineage(); tables are compared as well.
"""
from __future__ import annotations

import itertools
import os

from vlib import observe, runner, sqlgen
from vlib import sqlir as ir
from vlib.props import C01

ID = "C02"
LEVEL = "exploration"
EXHAUSTIVE = False
EXHAUSTIVE_STREAMS = {'skeleton': 'thorough tier: the full product under ansi + 5 rotating dialects; quick tier: a seeded fifth', 'random': 'sampled'}
RULE = ("case = (IR statement, dialect). skeleton: every combination of select-item kind {plain, aliased, qualified, function, nested function, arithmetic, "
        "CASE, CAST, ::cast, window with PARTITION/ORDER, parenthesised, star, qualified star} x scope {1 table, aliased, 2/3 tables comma, join, "
        "derived, CTE, derived joined with table, join mixed with comma} x nesting 0-2 x set-operation arity 1-3 x explicit column list {none, INSERT, "
        "CREATE VIEW}; random: Hypothesis to expression depth 3. Non-trivial = >= 2 relations in some scope, or an expression of depth >= 2, or "
        "nesting >= 1, or a set operation; distinct = distinct (SQL text, dialect).")
ASSUMPTIONS = [
    "generator domain restricted to where the property determines the answer (DESIGN 3.2 rule 1): unqualified columns only with one relation in scope or only base tables in scope; star only as sole select item; non-column expressions always aliased; statement-wide unique aliases; no two equal-text subqueries",
    "shapes of the listed known findings (union with a literal first branch, equal bare names in different schemas, alias equal to a table name, star over mixed scopes, SELECT * over a CTE, joins inside a joined derived table) are excluded from the main stream by construction and replayed from known_findings.json",
    "acceptance and parse shape are decided by sqlfluff's parser (see C01)",
]


def actual(sql, dialect):
    try:
        lr = observe.runner_of(sql, dialect)
        return {"S": [str(t) for t in lr.source_tables], "T": [str(t) for t in lr.target_tables], "pairs": [list(p) for p in observe.pairs(lr)]}
    except Exception as e:  # noqa
        return {"EXC": observe.exc_name(e), "msg": str(e)[:200]}


def norm_pairs(pairs):
    """candidate lists of unresolved columns are sets: compare them order-insensitively"""
    out = set()
    for a, b in pairs:
        if "?" not in a and a.count(".") == 1:
            # the root is a column of a subquery that nothing feeds (a constant defined in a derived table / CTE): the property speaks of
            # base-table columns, so such roots are left out on both sides (the implementation reports them for named references only)
            continue
        if "?" in a:
            name, cands = a.split("?", 1)
            a = name + "?" + "|".join(sorted(cands.split("|")))
        out.add((a, b))
    return sorted(out)


def compare(exp, got):
    S, T, pairs = exp
    if "EXC" in got:
        return {"what": "accepted supported statement raises", "exc": got["EXC"], "msg": got.get("msg")}
    if got["S"] != list(S) or got["T"] != list(T):
        return {"what": "tables differ", "expected": [S, T], "reported": [got["S"], got["T"]]}
    e, g = norm_pairs(pairs), norm_pairs(got["pairs"])
    if e != g:
        return {"what": "column pairs differ", "missing": [list(p) for p in sorted(set(e) - set(g))], "extra": [list(p) for p in sorted(set(g) - set(e))]}
    return None


def _retargeted_only(detail):
    """symptom: every missing (root, target) pair reappears with the same root under another target name, nothing else differs"""
    if detail.get("what") != "column pairs differ":
        return False
    miss, extra = detail.get("missing") or [], detail.get("extra") or []
    return bool(miss) and {m[0] for m in miss} <= {e[0] for e in extra} or (bool(miss) and not extra and False)


UM_CELLS = {("athena", "kind:Merge"), ("databricks", "kind:Merge"), ("exasol", "kind:Merge"), ("exasol", "kind:Update"), ("sqlite", "kind:Update"),
            ("trino", "kind:Merge"), ("tsql", "kind:Merge"), ("tsql", "kind:Update")}


def classify(case, detail):
    feats = set(case.get("features") or [])
    if any((case.get("dialect"), k) in UM_CELLS for k in feats) and detail.get("what") == "column pairs differ" and detail.get("missing") and not detail.get("extra"):
        return "K-dialect-update-merge-columns@C02"
    d = case.get("dialect")
    what = detail.get("what", "")
    if any(f.startswith("set_expression:") for f in feats) and what == "column pairs differ" and detail.get("missing") and not detail.get("extra") \
            and all(p[1].endswith(".c2") for p in detail["missing"]):
        return "K-set-expression@C02"  # only the pairs of the expression-valued assignment (always to c2 in the probes) are missing
    if "setop_first_branch_sourceless_item" in feats and what == "column pairs differ":
        # positions shift from the first source-less item on; inside a derived table other roots end up under the target names
        return "K-union-literal@C02"
    if d == "clickhouse" and "explicit_view_columns" in feats and _retargeted_only(detail):
        return "K-clickhouse-view-collist@C02"
    if d == "clickhouse" and what == "tables differ" and not (set(detail["reported"][0]) - set(detail["expected"][0])) and detail["reported"][1] == detail["expected"][1]:
        return "K-clickhouse-where-subquery@C02"
    if d == "impala" and what == "accepted supported statement raises" and detail.get("exc", "").endswith("UnsupportedStatementException") \
            and case.get("sql", "").upper().startswith("CREATE TABLE"):
        return "K-unsupported-impala-ctas@C02"
    return None


def ir_features(stmt):
    """features the known-finding triggers are defined on, read off the IR"""
    feats = set()

    def sourceless(item):
        refs = []
        ir.expr_cols(item.e, refs)
        return not refs

    def q_(q):
        if isinstance(q, ir.With):
            for _, cq in q.ctes:
                q_(cq)
            q_(q.body)
        elif isinstance(q, ir.SetOp):
            first = q.branches[0]
            if isinstance(first, ir.Select) and any(sourceless(i) for i in first.items):
                feats.add("setop_first_branch_sourceless_item")
            for b in q.branches:
                q_(b)
        else:
            for gi, g in enumerate(q.frm):
                if g.joins and gi < len(q.frm) - 1:
                    feats.add("comma_after_join")
                for f in [g.first] + [j.item for j in g.joins]:
                    if isinstance(f, ir.Derived):
                        q_(f.q)
            for it in q.items:
                if isinstance(it.e, ir.Case) and it.alias and not it.as_kw:
                    feats.add("case_alias_noas")
            if isinstance(q.where, ir.PParen) and _has_sub(q.where):
                feats.add("paren_where_subquery")
            for p in (q.where, q.having):
                _p(p)

    def _has_sub(p):
        if isinstance(p, (ir.InSub, ir.CmpSub, ir.Exists)):
            return True
        if isinstance(p, ir.BoolOp):
            return _has_sub(p.l) or _has_sub(p.r)
        if isinstance(p, (ir.PParen, ir.Not)):
            return _has_sub(p.p)
        return False

    def _p(p):
        if p is None:
            return
        if isinstance(p, (ir.InSub, ir.CmpSub, ir.Exists)):
            q_(p.q)
        elif isinstance(p, ir.BoolOp):
            _p(p.l), _p(p.r)
        elif isinstance(p, (ir.PParen, ir.Not)):
            _p(p.p)

    s = stmt
    if isinstance(s, ir.CteInsert):
        for _, cq in s.ctes:
            q_(cq)
        s = s.ins
    if getattr(s, "q", None) is not None:
        q_(s.q)
    if isinstance(s, ir.CreateView) and s.cols:
        feats.add("explicit_view_columns")
    return sorted(feats)


def expr_depth(e):
    if isinstance(e, (ir.Col, ir.Lit, ir.Star)):
        return 0
    if isinstance(e, ir.Func):
        return 1 + max([expr_depth(a) for a in e.args] or [0])
    if isinstance(e, ir.Bin):
        return 1 + max(expr_depth(e.l), expr_depth(e.r))
    if isinstance(e, (ir.Paren, ir.Cast)):
        return 1 + expr_depth(e.e)
    if isinstance(e, ir.Case):
        return 1 + max([expr_depth(v) for _, v in e.whens] + ([expr_depth(e.els)] if e.els is not None else [0]))
    if isinstance(e, ir.Win):
        return 1 + max([expr_depth(a) for a in e.args + e.part + e.order] or [0])
    return 1


def stmt_query(stmt):
    if isinstance(stmt, ir.CteInsert):
        return stmt.ins.q
    return getattr(stmt, "q", None)


def nontrivial(stmt):
    sig = ir.ir_signature(stmt)
    if sig and (sig[1] + sig[2]) >= 2:
        return True
    q = stmt_query(stmt)

    def sel(q):
        if isinstance(q, ir.With):
            return sel(q.body)
        if isinstance(q, ir.SetOp):
            return True
        nrel = sum(1 + len(g.joins) for g in q.frm)
        return nrel >= 2 or any(expr_depth(i.e) >= 2 for i in q.items)

    return q is not None and sel(q)


def judge(stmt, feats, dialect, res, ctx, stream):
    sql = ir.r_stmt(stmt)
    acc = C01.accepted(stmt, sql, dialect)
    if acc is None:
        res.discard("rejected_by_dialect:" + dialect)
        return None
    if acc is False:
        res.discard("parser_divergent:" + dialect)
        return None
    exp = ir.expected(stmt)
    feats = list(feats) + ir_features(stmt)
    c = {"sql": sql, "dialect": dialect, "expected": {"S": exp[0], "T": exp[1], "pairs": [list(p) for p in exp[2]]}, "features": list(feats)}
    res.case(sql + "|" + dialect, nontrivial(stmt), labels=[stream, "dialect:" + dialect] + [f for f in feats if not f.startswith("from:")],
             sample=c if len(sql) < 260 else None)
    d = compare(exp, actual(sql, dialect))
    if d is None:
        return None
    fid = classify(c, d)
    if fid and fid in ctx.active:
        res.known(fid, c)
        return None
    if os.environ.get("VERIF_COLLECT"):
        res.known("UNLISTED | " + d["what"] + " | " + dialect + " | " + ",".join(sorted(f for f in feats if not f.startswith(("from:", "nest="))))[:70], c)
        return None
    return {"kind": stream, "case": c, "detail": d}


def _random_worker(payload):
    shard, n, depth, ctx = payload
    from hypothesis import strategies as st

    res = runner.Res()
    dl = C01.all_dialects()

    def body(case, res_):
        stmt, dsel = case
        out = None
        for dialect in ["ansi"] + ([dl[dsel % len(dl)]] if dl[dsel % len(dl)] != "ansi" else []):
            v = judge(stmt, ["kind:" + type(stmt).__name__], dialect, res_, ctx, "random")
            out = out or v
        # the same statement with the aliases of every query block renamed to n1, n2, ... (sibling and nested blocks then SHARE alias names, which is
        # legal: an alias is local to its block); judged against the reference of the rewritten IR
        s2 = reuse_aliases(stmt)
        if s2 is not None and out is None:
            out = judge(s2, ["kind:" + type(stmt).__name__, "aliases_reused_per_block"], "ansi", res_, ctx, "random")
        return out

    runner.hyp_run(st.tuples(sqlgen.stmt(depth), st.integers(0, 200)), body, res,
                   seed=runner.derive_seed(ctx.seed, "C02rand", shard, depth), max_examples=n, ctx=ctx)
    return res


def reuse_aliases(stmt):
    """C08's per-block alias reuse applied to a C02 case; None when nothing changes or when the rewritten statement falls under K-alias-reuse@C08
    (an ambiguity of kind 'other', already mis-resolved on the pinned tree)"""
    from vlib.props import C08

    s2 = C08.rename_per_scope(stmt, True)
    if s2 == stmt or C08.alias_ambiguities(s2):  # either kind: 'from_child' is usually resolved correctly on the pinned tree, not always (thorough tier)
        return None
    return s2


# ------------------------------------------------------------------------------------------ skeleton enumeration
COLS4 = ("c1", "c2", "c3", "k")


def _base_select(tname, schema=None):
    return ir.Select(tuple(ir.Item(ir.Col(None, c)) for c in COLS4), (ir.FromGroup(ir.T(schema, tname)),))


def scopes():
    """(name, builder(k) -> (groups, q1, q2, ctes, all_base, star_ok)) ; k makes table names unique per set-operation branch"""
    on = lambda l, r: ("on", ir.Cmp(ir.Col(l, "k"), "=", ir.Col(r, "k")))  # noqa: E731
    return [
        ("one_table", lambda k: ((ir.FromGroup(ir.T(None, f"ta{k}")),), f"ta{k}", None, (), True, True)),
        ("one_aliased", lambda k: ((ir.FromGroup(ir.T("s1", f"ta{k}", f"x{k}", True)),), f"x{k}", None, (), True, True)),
        ("two_comma", lambda k: ((ir.FromGroup(ir.T(None, f"ta{k}")), ir.FromGroup(ir.T("s1", f"tb{k}", f"y{k}", False))), f"ta{k}", f"y{k}", (), True, True)),
        ("three_comma", lambda k: ((ir.FromGroup(ir.T(None, f"ta{k}")), ir.FromGroup(ir.T(None, f"tb{k}")), ir.FromGroup(ir.T("s2", f"tc{k}"))), f"ta{k}", f"s2.tc{k}", (), True, True)),
        ("join", lambda k: ((ir.FromGroup(ir.T(None, f"ta{k}", f"x{k}", True), (ir.Join("LEFT JOIN", ir.T(None, f"tb{k}"), on(f"x{k}", f"tb{k}")),)),), f"x{k}", f"tb{k}", (), True, True)),
        ("derived", lambda k: ((ir.FromGroup(ir.Derived(_base_select(f"td{k}", "s1"), f"d{k}", True)),), f"d{k}", None, (), False, True)),
        ("cte", lambda k: ((ir.FromGroup(ir.CteRef(f"q{k}")),), f"q{k}", None, ((f"q{k}", _base_select(f"te{k}")),), False, False)),
        ("derived_join_table", lambda k: ((ir.FromGroup(ir.Derived(_base_select(f"td{k}"), f"d{k}", False), (ir.Join("JOIN", ir.T(None, f"tb{k}", f"y{k}", True), on(f"d{k}", f"y{k}")),)),), f"d{k}", f"y{k}", (), False, False)),
        ("join_then_comma", lambda k: ((ir.FromGroup(ir.T(None, f"ta{k}"), (ir.Join("JOIN", ir.T(None, f"tb{k}"), on(f"ta{k}", f"tb{k}")),)), ir.FromGroup(ir.T("s1", f"tc{k}", f"z{k}", True))), f"tb{k}", f"z{k}", (), True, True)),
    ]


def item_kinds():
    C = ir.Col
    return [
        ("plain_unqualified", lambda q1, q2: ir.Item(C(None, "c1" if q2 is None else "w" + "".join(ch for ch in q1 if ch.isdigit()))), "unq"),
        ("aliased", lambda q1, q2: ir.Item(C(q1, "c1"), "o1", True), None),
        ("aliased_noas", lambda q1, q2: ir.Item(C(q2 or q1, "c2"), "o1", False), None),
        ("qualified", lambda q1, q2: ir.Item(C(q1, "c2")), None),
        ("function", lambda q1, q2: ir.Item(ir.Func("coalesce", (C(q1, "c1"), C(q2 or q1, "c2"))), "o1"), None),
        ("nested_function", lambda q1, q2: ir.Item(ir.Func("max", (ir.Func("coalesce", (C(q1, "c1"), ir.Func("nvl", (C(q2 or q1, "c3"), ir.Lit("0"))))),)), "o1"), None),
        ("arithmetic", lambda q1, q2: ir.Item(ir.Bin("+", C(q1, "c1"), ir.Bin("*", C(q2 or q1, "c2"), ir.Lit("2"))), "o1"), None),
        ("case", lambda q1, q2: ir.Item(ir.Case(((ir.Cmp(C(q1, "c1"), ">", ir.Lit("0")), C(q1, "c2")),), C(q2 or q1, "c3")), "o1"), None),
        ("cast", lambda q1, q2: ir.Item(ir.Cast(C(q1, "c1"), "int", "cast"), "o1"), None),
        ("cast_colons", lambda q1, q2: ir.Item(ir.Cast(C(q1, "c1"), "int", "::")), None),
        ("window", lambda q1, q2: ir.Item(ir.Win("sum", (C(q1, "c1"),), (C(q1, "c2"),), (C(q2 or q1, "c3"),)), "o1"), None),
        ("parenthesised", lambda q1, q2: ir.Item(ir.Paren(ir.Bin("-", C(q1, "c1"), C(q2 or q1, "c2"))), "o1"), None),
        ("constant", lambda q1, q2: ir.Item(ir.Lit("1"), "o1", True), None),
        ("constant_null", lambda q1, q2: ir.Item(ir.Cast(ir.Lit("NULL"), "int", "cast"), "o1", True), None),
        ("star", lambda q1, q2: ir.Item(ir.Star(None)), "star"),
        ("qualified_star", lambda q1, q2: ir.Item(ir.Star(q1)), "qstar"),
    ]


def skeletons():
    for (iname, ib, special), (sname, sb), nest, arity, collist in itertools.product(item_kinds(), scopes(), (0, 1, 2), (1, 2, 3), ("none", "insert", "view")):
        branches = []
        ctes = ()
        ok = True
        for k in range(arity):
            groups, q1, q2, c, all_base, star_ok = sb(k + 1)
            if special == "unq" and not (len(groups) == 1 and not groups[0].joins or all_base):
                ok = False
            if special in ("star", "qstar") and not star_ok:
                ok = False
            if special in ("star", "qstar") and (collist != "none" or arity > 1 and not all_base):
                ok = False  # star + explicit list / star through set operations of subqueries: outside the determined domain
            if special == "qstar" and len(groups) == 1 and not groups[0].joins and False:
                ok = False
            ctes += tuple(c)
            if special in ("star", "qstar"):
                items = (ib(q1, q2),)
            elif iname.startswith("constant"):
                items = (ir.Item(ir.Col(q1, "c2")), ib(q1, q2), ir.Item(ir.Col(q1, "k")))  # the constant sits BETWEEN two columns: positions matter
            else:
                items = (ib(q1, q2), ir.Item(ir.Col(q1, "k")))
            q = ir.Select(items, groups)
            # nesting: wrap in derived tables that pass the named outputs through
            for lvl in range(nest):
                if special in ("star", "qstar"):
                    q = ir.Select((ir.Item(ir.Star(None)),), (ir.FromGroup(ir.Derived(q, f"n{k}{lvl}", True)),))
                else:
                    names = sqlgen.out_cols(q, sqlgen.Ctx())
                    q = ir.Select(tuple(ir.Item(ir.Col(f"n{k}{lvl}", n)) for n in names), (ir.FromGroup(ir.Derived(q, f"n{k}{lvl}", True)),))
            branches.append(q)
        if not ok:
            continue
        body = branches[0] if arity == 1 else ir.SetOp(("UNION ALL",) + ("UNION",) * (arity - 2), tuple(branches))
        if ctes:
            body = ir.With(ctes, body)
        tgt = ir.T("s9", "tgt")
        ncols = 1 if special in ("star", "qstar") else (3 if iname.startswith("constant") else 2)
        cols = tuple(f"t{i + 1}" for i in range(ncols))
        if collist == "none":
            stmt = ir.Insert(tgt, None, body, "INSERT INTO", False)
        elif collist == "insert":
            stmt = ir.Insert(tgt, cols, body, "INSERT INTO", False)
        else:
            stmt = ir.CreateView(tgt, cols, body, "CREATE VIEW", False)
        yield stmt, ["item:" + iname, "scope:" + sname, f"nest={nest}", f"setop_arity={arity}", "collist:" + collist]


def update_merge_statements():
    """UPDATE .. SET .. FROM and MERGE column lineage: FROM / USING shape x assignment set x target alias"""
    C, T, D, S, G, J, I = ir.Col, ir.T, ir.Derived, ir.Select, ir.FromGroup, ir.Join, ir.Item
    on = lambda a, b: ("on", ir.Cmp(C(a, "k"), "=", C(b, "k")))  # noqa: E731
    der = D(S((I(C("s1.tu", "c1")), I(C("s1.tu", "c2"), "c9", True), I(C("s1.tu", "k"))), (G(T("s1", "tu")),)), "d", True)
    derj = D(S((I(C("x", "c1")), I(C("y", "c2")), I(C("x", "k"))), (G(T(None, "ta", "x", True), (J("JOIN", T("s1", "tb", "y", True), on("x", "y")),)),)), "d", True)
    out = []
    # names of the inner block that also occur in the outer one (an alias is local to its query block)
    der_same = D(S((I(C("d", "c2"), "c1", True), I(C("d", "k"))), (G(T("s1", "tu", "d", True)),)), "d", True)
    der_sib = D(S((I(C("b", "c2"), "c1", True), I(C("b", "k"))), (G(T("s1", "tu", "b", True)),)), "d", True)
    der_bare = D(S((I(C("tu", "c2"), "c1", True), I(C("tu", "k"))), (G(T(None, "tu")),)), "tu", True)
    froms = [("derived_inner_alias_equals_own_alias", (G(der_same),), "d", "d"),
             ("derived_inner_alias_equals_sibling_alias", (G(der_sib), G(T(None, "tb", "b", True))), "d", "b"),
             ("derived_alias_equals_inner_table_name", (G(der_bare),), "tu", "tu"),
             ("single", (G(T(None, "ta")),), "ta", "ta"), ("aliased", (G(T("s1", "ta", "a", True)),), "a", "a"), ("comma2", (G(T(None, "ta")), G(T(None, "tb", "b", False))), "ta", "b"),
             ("join", (G(T(None, "ta", "a", True), (J("JOIN", T("s2", "tb"), on("a", "s2.tb")),)),), "a", "s2.tb"), ("derived", (G(der),), "d", "d"),
             ("derived_join", (G(derj, (J("LEFT JOIN", T(None, "tc"), on("d", "tc")),)),), "d", "tc")]
    for fname, frm, q1, q2 in froms:
        for nset in (1, 2):
            for talias in (None, "t"):
                tgt = T("s9", "tgt", talias, True)
                sets = (("c1", C(q1, "c1")),) + ((("c2", C(q2, "c2")),) if nset == 2 else ())
                where = ir.Cmp(C(q1, "k"), "=", C(talias or "s9.tgt", "k"))
                out.append((ir.Update(tgt, sets, frm, where), ["kind:Update", "update_from:" + fname, f"sets={nset}", "target_alias" if talias else "target_plain"]))
    # assignments whose right-hand side is an expression, not a plain column (finding probes: K-set-expression)
    exprs = [("function", lambda a, b: ir.Func("coalesce", (a, b))), ("arithmetic", lambda a, b: ir.Bin("+", a, ir.Lit("1"))), ("cast", lambda a, b: ir.Cast(a, "int", "cast")),
             ("case", lambda a, b: ir.Case(((ir.Cmp(a, ">", ir.Lit("0")), b),), a))]
    for ename, eb in exprs:
        frm = (G(T(None, "ta", "a", True), (J("JOIN", T("s2", "tb"), on("a", "s2.tb")),)),)
        sets = (("c1", C("a", "c1")), ("c2", eb(C("a", "c2"), C("s2.tb", "c2"))))
        out.append((ir.Update(T("s9", "tgt"), sets, frm, None), ["kind:Update", "update_from:join", "set_expression:" + ename]))
        out.append((ir.Merge(T("s9", "tgt"), T(None, "ta", "a", True), ir.Cmp(C("s9.tgt", "k"), "=", C("a", "k")), (("c1", C("a", "c1")), ("c2", eb(C("a", "c2"), C("a", "c3")))), ()),
                    ["kind:Merge", "merge_source:aliased", "set_expression:" + ename, "merge:upd"]))
        out.append((ir.Merge(T("s9", "tgt"), T(None, "ta", "a", True), ir.Cmp(C("s9.tgt", "k"), "=", C("a", "k")), (), (("k", C("a", "k")), ("c2", eb(C("a", "c2"), C("a", "c3"))))),
                    ["kind:Merge", "merge_source:aliased", "set_expression:" + ename, "merge:ins"]))
    srcs = [("table", T(None, "ta"), "ta"), ("aliased", T("s1", "ta", "s", True), "s"), ("derived", der, "d"), ("derived_join", derj, "d"),
            ("derived_inner_alias_equals_own_alias", D(S((I(C("d", "c2"), "c1", True), I(C("d", "c1"), "c2", True), I(C("d", "k"))), (G(T("s1", "tu", "d", True)),)), "d", True), "d")]
    for sname, src, q in srcs:
        for talias in (None, "t"):
            tgt = T("s9", "tgt", talias, True)
            tn = talias or "s9.tgt"
            for mode in ("upd", "ins", "both"):
                upd = (("c1", C(q, "c1")),) if mode in ("upd", "both") else ()
                ins = (("k", C(q, "k")), ("c2", C(q, "c2"))) if mode in ("ins", "both") else ()
                out.append((ir.Merge(tgt, src, ir.Cmp(C(tn, "k"), "=", C(q, "k")), upd, ins), ["kind:Merge", "merge_source:" + sname, "merge:" + mode, "target_alias" if talias else "target_plain"]))
            # several WHEN clauses of one kind with different column lists / orders, conditional clauses, DELETE
            cond = ir.Cmp(C(q, "c1"), "=", ir.Lit("1"))
            multi = [
                ("two_inserts", (), (("k", C(q, "k")), ("c1", C(q, "c1"))), (("ins", None, (("c2", C(q, "c2")),)),)),
                ("two_inserts_reordered", (), (("k", C(q, "k")), ("c1", C(q, "c1"))), (("ins", cond, (("c1", C(q, "c2")), ("k", C(q, "k")))),)),
                ("two_updates", (("c1", C(q, "c1")),), (), (("upd", cond, (("c2", C(q, "c2")), ("c1", C(q, "k")))),)),
                ("update_delete_insert", (("c1", C(q, "c1")),), (("k", C(q, "k")),), (("del", cond, ()), ("ins", cond, (("c2", C(q, "c1")),)))),
            ]
            for mname, upd, ins, more in multi:
                out.append((ir.Merge(tgt, src, ir.Cmp(C(tn, "k"), "=", C(q, "k")), upd, ins, more), ["kind:Merge", "merge_source:" + sname, "merge:" + mname, "target_alias" if talias else "target_plain"]))
    return out


def _update_merge_worker(payload):
    shard, nshards, ctx = payload
    res = runner.Res()
    dl = C01.all_dialects()
    for idx, (stmt, feats) in enumerate(update_merge_statements()):
        if idx % nshards != shard:
            continue
        pick = ["ansi"] + ([dl[(idx + ctx.seed + j * 5) % len(dl)] for j in range(3)] if ctx.quick else dl)
        for dialect in dict.fromkeys(pick):
            v = judge(stmt, feats, dialect, res, ctx, "update_merge")
            if v is not None and len(res.violations) < 4:
                res.violation(v["kind"], v["case"], v["detail"])
    return res


def _skeleton_worker(payload):
    shard, nshards, ctx = payload
    res = runner.Res()
    dl = C01.all_dialects()
    for idx, (stmt, feats) in enumerate(skeletons()):
        if idx % nshards != shard:
            continue
        if ctx.quick and (idx // nshards + ctx.seed) % 5:
            continue
        if ctx.out_of_time():
            res.budget_exhausted = True
            break
        pick = ["ansi", dl[(idx + ctx.seed) % len(dl)]] if ctx.quick else ["ansi"] + [dl[(idx + j) % len(dl)] for j in range(5)]
        for dialect in dict.fromkeys(pick):
            v = judge(stmt, feats, dialect, res, ctx, "skeleton")
            if v is not None and len(res.violations) < 4:
                res.violation(v["kind"], v["case"], v["detail"])
        s2 = reuse_aliases(stmt) if ("nest=0" not in feats or "setop_arity=1" not in feats) else None
        if s2 is not None:
            v = judge(s2, feats + ["aliases_reused_per_block"], "ansi", res, ctx, "skeleton")
            if v is not None and len(res.violations) < 4:
                res.violation(v["kind"], v["case"], v["detail"])
    return res


def replay(case):
    if case.get("lateral"):
        d = check_lateral(case)
        return None if d is None else {"kind": "replay", "case": case, "detail": d}
    e = case["expected"]
    d = compare((e["S"], e["T"], [tuple(p) for p in e["pairs"]]), actual(case["sql"], case["dialect"]))
    return None if d is None else {"kind": "replay", "case": case, "detail": d}


# ------------------------------------------------------------------------------------------ lateral column alias stream
LAT_E1 = [("a + 1", ["a"]), ("coalesce(a, z)", ["a", "z"]), ("cast(a as int)", ["a"]), ("s.a", ["a"])]
LAT_E2 = [("b + k", ["k"]), ("case when b > 0 then k else b end", ["k"]), ("b", []), ("max(b) over (partition by k)", ["k"])]
LAT_MD = {"s1.s": ["a", "k", "z"], "s1.s2": ["a2", "k2"], "s9.tk": ["x", "y"]}


def lateral_cases():
    """LATERAL_COLUMN_ALIAS_REFERENCE on + a provider that knows the source's columns: a select item may reference an EARLIER select alias
    ('select a + 1 as b, b + k as c'); the dataflow of c is then that of b's expression plus k.  Every pair of expression forms x every way the
    target columns get their names (select aliases, INSERT column list, CREATE VIEW column list, CTAS, known target by position, a second
    set-operation branch with its own aliases)"""
    import itertools

    for (e1, r1), (e2, r2) in itertools.product(LAT_E1, LAT_E2):
        sel = f"select {e1} as b, {e2} as c from s1.s s"
        for form, names in (("insert into s9.t " + sel, ("b", "c")), ("insert into s9.t (x, y) " + sel, ("x", "y")), ("create view s9.v (x, y) as " + sel, ("x", "y")),
                            ("create table s9.t as " + sel, ("b", "c")), ("insert into s9.tk " + sel, ("x", "y")),
                            ("insert into s9.t " + sel + " union all select a2 as p, p + k2 as q from s1.s2", ("b", "c"))):
            tgt = "s9.v" if "view" in form else ("s9.tk" if "s9.tk" in form else "s9.t")
            exp = {("s1.s." + c, f"{tgt}.{names[0]}") for c in r1} | {("s1.s." + c, f"{tgt}.{names[1]}") for c in set(r1) | set(r2)}
            if "union" in form:
                exp |= {("s1.s2.a2", f"{tgt}.b"), ("s1.s2.a2", f"{tgt}.c"), ("s1.s2.k2", f"{tgt}.c")}
            yield {"lateral": True, "sql": form, "metadata": LAT_MD, "expected_pairs": sorted(list(p) for p in exp)}


def check_lateral(case):
    from sqllineage.config import SQLLineageConfig

    try:
        with SQLLineageConfig(LATERAL_COLUMN_ALIAS_REFERENCE=True):
            lr = observe.runner_of(case["sql"], "ansi", metadata=case["metadata"])
            got = [list(p) for p in observe.pairs(lr)]
    except Exception as e:  # noqa
        return {"what": "raises", "exc": observe.exc_name(e), "msg": str(e)[:200]}
    exp = [list(p) for p in case["expected_pairs"]]
    if got != exp:
        return {"what": "column pairs differ from the lateral-alias dataflow", "missing": [p for p in exp if p not in got], "extra": [p for p in got if p not in exp]}
    return None


def _lateral_worker(payload):
    shard, nshards, ctx = payload
    res = runner.Res()
    for idx, c in enumerate(lateral_cases()):
        if idx % nshards != shard:
            continue
        res.case(c["sql"], True, labels=["lateral_alias"], sample=c if idx % 17 == 0 else None)
        d = check_lateral(c)
        if d is not None and len(res.violations) < 3:
            res.violation("lateral_alias", c, d)
    return res


def run(ctx):
    nshards = runner.NCPU * 2
    res = runner.merge_all(runner.pmap(_skeleton_worker, [(i, nshards, ctx) for i in range(nshards)]))
    res.merge(runner.merge_all(runner.pmap(_update_merge_worker, [(i, nshards, ctx) for i in range(nshards)])))
    res.merge(runner.merge_all(runner.pmap(_lateral_worker, [(i, runner.NCPU, ctx) for i in range(runner.NCPU)])))
    res.extra["skeletons"] = sum(1 for _ in skeletons())
    n = ctx.n(1440, 40000)
    payloads = [(i, n // runner.NCPU, 2, ctx) for i in range(runner.NCPU)]
    if not ctx.quick:
        payloads += [(i, n // runner.NCPU // 5, 3, ctx) for i in range(runner.NCPU)]
    res.merge(runner.merge_all(runner.pmap(_random_worker, payloads)))
    return res
