"""C14 - a default schema equals explicit qualification.

Metamorphic, on the IR: analysing a statement under default schema S must give the same canonical dump (tables, column paths,
both exports) as analysing the IR with every unqualified base table rewritten to S.name (the rewrite is done on the IR, so CTE
names and aliases are never touched) - for S spelled lower / UPPER / Mixed / quoted, for S fresh or already used as a qualifier,
through both mechanisms: SQLLINEAGE_DEFAULT_SCHEMA set before a fresh interpreter starts, and a scoped override.  With no
default, replacing the placeholder '<default>.' by 'S.' in the dump must give the dump under default S (placeholder used uniformly).
"""
from __future__ import annotations

import json
import os
import subprocess
import sys

from vlib import observe, runner, sqlgen
from vlib import sqlir as ir
from vlib.props import C01, C03

ID = "C14"
LEVEL = "exploration"
RULE = ("case = (IR statement of any supported kind, or a C03-style multi-statement script with DROP/RENAME, or a dialect-specific statement such as "
        "vertica swap_partitions / spark path sources; dialect; default schema S in {fresh name, a qualifier the script already uses} x spelling {lower, "
        "UPPER, Mixed, quoted lower}; mechanism {scoped override, environment variable in a fresh interpreter, environment variable with a scoped override of another setting on top, scoped override on top of a different environment default}). Non-trivial = the statement has at least "
        "one unqualified and the case is judged under a default; distinct = distinct (SQL text, dialect, S, mechanism).")
ASSUMPTIONS = [
    "both texts must be accepted by the dialect's own sqlfluff parser with the IR's parse shape, otherwise the case is discarded and counted",
    "quoted mixed-case spellings of S are not generated: they fall under the identifier-normalisation finding of C16 (K-quoted-case)",
    "anonymous subquery names are canonicalised; exports compared as sets",
]
_CHILD = os.path.join(os.path.dirname(os.path.dirname(os.path.abspath(__file__))), "c11_child.py")
SPECIAL = [
    ("vertica", "select swap_partitions_between_tables('staging', 'min-range-value', 'max-range-value', 'target')",
     "select swap_partitions_between_tables('{S}.staging', 'min-range-value', 'max-range-value', '{S}.target')"),
    ("sparksql", "INSERT OVERWRITE DIRECTORY 'hdfs://p/x' SELECT a.c1 FROM ta a JOIN s1.tb b ON a.k = b.k", "INSERT OVERWRITE DIRECTORY 'hdfs://p/x' SELECT a.c1 FROM {S}.ta a JOIN s1.tb b ON a.k = b.k"),
    ("non-validating", "insert into tgt select ta.c1, b.c2 from ta join s1.tb b on ta.k = b.k", "insert into {S}.tgt select ta.c1, b.c2 from {S}.ta join s1.tb b on ta.k = b.k"),
    ("ansi", "create table tgt like ta", "create table {S}.tgt like {S}.ta"),
    ("snowflake", "copy into tgt from 's3://bucket/x'", "copy into {S}.tgt from 's3://bucket/x'"),
    ("ansi", "drop table ta; alter table tb rename to tc; insert into tgt select * from tc", "drop table {S}.ta; alter table {S}.tb rename to {S}.tc; insert into {S}.tgt select * from {S}.tc"),
    ("mysql", "update ta a join tb b on a.k = b.k set a.c1 = b.c1", "update {S}.ta a join {S}.tb b on a.k = b.k set a.c1 = b.c1"),
    ("postgres", "select ta.c1 into tgt from ta", "select ta.c1 into {S}.tgt from {S}.ta"),
]
SCHEMAS = [("fresh", "dflt"), ("fresh", "DFLT"), ("fresh", "Dflt"), ("fresh", "QUOTED:dflt"), ("used", "s1"), ("used", "S1"), ("used", "s9")]


def spell(S, dialect):
    """the quoted spelling uses the dialect's own identifier quotes"""
    if S.startswith("QUOTED:"):
        from vlib import rewrite

        a, b = rewrite.quote_for(dialect if dialect != "non-validating" else "ansi")
        return a + S.split(":", 1)[1] + b
    return S


def view_scoped(sql, dialect, S, metadata=None):
    from sqllineage.config import SQLLineageConfig

    if S is None:
        return observe.dump(sql, dialect, metadata=metadata)
    with SQLLineageConfig(DEFAULT_SCHEMA=S):
        return observe.dump(sql, dialect, metadata=metadata)


# statements whose column attribution needs the provider: the tables are known to it under the DEFAULT schema's name, so the default schema decides
# whether the lookup finds them (unqualified columns over joins of unqualified tables, stars, INSERT positions of a known unqualified target)
WITH_METADATA = [
    ("ansi", "insert into tgt select c1, d1 from ta join tb on ta.k = tb.k", "insert into {S}.tgt select c1, d1 from {S}.ta join {S}.tb on {S}.ta.k = {S}.tb.k",
     {"ta": ["c1", "k"], "tb": ["d1", "k"]}),
    ("ansi", "insert into tgt select * from ta", "insert into {S}.tgt select * from {S}.ta", {"ta": ["c1", "c2"]}),
    ("ansi", "insert into tgt select c1, e1 from ta, s1.tb", "insert into {S}.tgt select c1, e1 from {S}.ta, s1.tb", {"ta": ["c1"], "s1.tb": ["e1"]}),
    ("ansi", "insert into tgt select ta.c1, ta.c2 from ta", "insert into {S}.tgt select {S}.ta.c1, {S}.ta.c2 from {S}.ta", {"tgt": ["t1", "t2"]}),
    ("ansi", "create table w as select c1, d1 from ta join tb using (k); insert into tgt select * from w",
     "create table {S}.w as select c1, d1 from {S}.ta join {S}.tb using (k); insert into {S}.tgt select * from {S}.w", {"ta": ["c1", "k"], "tb": ["d1", "k"]}),
    ("non-validating", "insert into tgt select c1, d1 from ta join tb on ta.k = tb.k", "insert into {S}.tgt select c1, d1 from {S}.ta join {S}.tb on {S}.ta.k = {S}.tb.k",
     {"ta": ["c1", "k"], "tb": ["d1", "k"]}),
]


def md_for(md, S):
    s = S.strip('"`[]').lower()
    return {(k if "." in k else f"{s}.{k}"): v for k, v in md.items()}


# mechanisms that involve the environment: what the fresh interpreter is started with, and what is scoped on top of it
ENV_MECHANISMS = {
    "environment": lambda S: (S, None),
    # a scoped override of an unrelated setting (at its default value) must not hide the environment's default schema
    "environment+scoped_other_setting": lambda S: (S, {"TSQL_NO_SEMICOLON": False}),
    "environment+scoped_other_setting2": lambda S: (S, {"LATERAL_COLUMN_ALIAS_REFERENCE": False}),
    # a scoped default schema wins over the environment's
    "scoped_over_environment": lambda S: ("envschema", {"DEFAULT_SCHEMA": S}),
}


def views_env(cases, S, scoped=None):
    """one fresh interpreter started with SQLLINEAGE_DEFAULT_SCHEMA=S dumps all cases (under a scoped override if given)"""
    env = {k: v for k, v in os.environ.items() if not k.startswith("SQLLINEAGE_")}
    env.update(PYTHONHASHSEED="0", PYTHONDONTWRITEBYTECODE="1", VERIF_REPO=runner.REPO)
    if S is not None:
        env["SQLLINEAGE_DEFAULT_SCHEMA"] = S
    req = {"cases": cases, "perm": 0}
    if scoped is not None:
        req["scoped"] = scoped
    r = subprocess.run([sys.executable, "-B", _CHILD], input=json.dumps(req), env=env, capture_output=True, text=True)
    if r.returncode != 0:
        raise runner.HarnessError("C14 child failed: " + r.stderr[-1500:])
    return [o["dump"] for o in json.loads(r.stdout)]


def first_diff(a, b):
    if ("EXC" in a) or ("EXC" in b):
        if a.get("EXC") != b.get("EXC"):
            return {"what": "exception differs", "default_schema_side": a.get("EXC"), "explicit_side": b.get("EXC"), "msg": a.get("msg") or b.get("msg")}
        return None
    for k in ("S", "T", "I", "C", "Cfull", "cyT", "cyC"):
        if a[k] != b[k]:
            return {"what": f"{k} differs", "under_default_schema": a[k], "explicitly_qualified": b[k]}
    return None


def substitute_placeholder(d, S):
    s = S.lower()
    out = json.loads(json.dumps(d).replace("<default>.", s + ".").replace('\\"<default>\\"', '\\"' + s + '\\"').replace('"<default>"', '"' + s + '"'))
    return _resort(out)


def _resort(d):
    for k in ("cyT", "cyC"):
        if k in d:
            d[k] = {"nodes": sorted(d[k]["nodes"]), "edges": sorted(d[k]["edges"])}
    for k in ("S", "T", "I"):
        if k in d:
            d[k] = sorted(d[k])
    for k in ("C", "Cfull", "Cnosq"):
        if k in d:
            d[k] = sorted(d[k], key=lambda p: (p[-1], p[0], p))
    return d


def classify(case, detail):
    return None


def judge_pair(sql, sql_q, dialect, S, mech, res, ctx, stream, has_unqualified=True, precomputed=None, metadata=None):
    c = {"sql": sql, "qualified_sql": sql_q, "dialect": dialect, "default_schema": S, "mechanism": mech}
    if metadata:
        c["metadata"] = metadata
    res.case((sql, dialect, S, mech), has_unqualified, labels=[stream, "mechanism:" + mech, "dialect:" + dialect, "schema:" + S],
             sample=c if len(sql) < 250 else None)
    if precomputed:
        a, b = precomputed
    else:
        a = view_scoped(sql, dialect, S, metadata)
        b = view_scoped(sql_q, dialect, None, metadata)
    d = first_diff(a, b)
    if d is None and S == "dflt" and mech == "scoped" and not metadata:
        # placeholder uniformity: the unset dump with '<default>.' replaced by 'dflt.' is the dump under default dflt
        u = view_scoped(sql, dialect, None)
        if "EXC" not in u and "EXC" not in a:
            us = substitute_placeholder(u, S)
            aa = _resort(json.loads(json.dumps(a)))
            for k in ("S", "T", "I", "C", "cyT", "cyC"):
                if us[k] != aa[k]:
                    d = {"what": f"placeholder not used uniformly ({k})", "unset_with_placeholder_substituted": us[k], "under_default_schema": a[k]}
                    break
    if d is None:
        return None
    if d["what"] == "cyC differs" and d["under_default_schema"]["edges"] == d["explicitly_qualified"]["edges"]:
        from vlib.props import C11

        if C11.equal_text_subqueries_named_differently(sql):
            # tables, column pairs, table export and the edges of the column export agree; only the naming of a node that stands for
            # two equal-text subqueries differs, and that follows the hash order of the two texts (K-eqtext-subq@C11): excluded, counted
            res.discard("equal_text_subquery_naming_excluded")
            return None
    fid = classify(c, d)
    if fid and fid in ctx.active:
        res.known(fid, c)
        return None
    if os.environ.get("VERIF_COLLECT"):
        res.known("UNLISTED | " + d["what"] + " | " + dialect + " | " + C01._form(sql), c)
        return None
    return {"kind": stream, "case": c, "detail": d}


def has_unq(stmt):
    found = []
    ir.map_ir(stmt, lambda x: (found.append(1), x)[1] if isinstance(x, ir.T) and x.schema is None else x)
    return bool(found)


def _ir_worker(payload):
    shard, n, ctx = payload
    from hypothesis import strategies as st

    res = runner.Res()
    dl = C01.all_dialects()

    def body(case, res_):
        (stmt, feats), ssel, dsel = case
        if isinstance(stmt, ir.Noop):
            return None
        if {"scalar_subquery_select_item", "function_arg_subquery", "case_arm_subqueries"} & set(feats):
            # scalar subqueries are analysed by a nested run that returns bare qualifiers (finding K-scalar-subquery-schema): the
            # invented tables are not table names of the text, so the property does not say which schema they get
            res_.discard("scalar_subquery_shapes_excluded")
            return None
        kind, S = SCHEMAS[ssel % len(SCHEMAS)]
        dialect = "ansi" if dsel < 60 else dl[dsel % len(dl)]
        S = spell(S, dialect)
        sql = ir.r_stmt(stmt)
        stmt_q = ir.qualify(stmt, S)
        sql_q = ir.r_stmt(stmt_q)
        for s_, q_ in ((stmt, sql), (stmt_q, sql_q)):
            acc = C01.accepted(s_, q_, dialect)
            if not acc:
                res_.discard(("rejected_by_dialect:" if acc is None else "parser_divergent:") + dialect)
                return None
        return judge_pair(sql, sql_q, dialect, S, "scoped", res_, ctx, "ir", has_unq(stmt))

    runner.hyp_run(st.tuples(sqlgen.stmt_tables(1 + shard % 2), st.integers(0, 20), st.integers(0, 200)), body, res,
                   seed=runner.derive_seed(ctx.seed, "C14ir", shard), max_examples=n, ctx=ctx)
    return res


def _script_worker(payload):
    shard, n, ctx = payload
    from hypothesis import strategies as st

    res = runner.Res()

    def body(case, res_):
        c03case, ssel = case
        kind, S = SCHEMAS[ssel % len(SCHEMAS)]
        stmts, dialect = c03case
        hist = tuple(s for s, _ in stmts)
        if any(s[0] == "renm" for s in hist):
            dialect = "mysql"
        if dialect == "non-validating" and any(s[0] in ("drop", "ren") for s in hist):
            dialect = "ansi"
        S = spell(S, dialect)
        sql = ";\n".join(C03.render_stmt(s, f, dialect) for s, f in stmts) + ";"
        q = lambda t: f"{S}.{t}"  # noqa: E731

        def qual(s):
            if s[0] == "rw":
                return ("rw", tuple(q(t) for t in s[1]), q(s[2]) if s[2] else None)
            if s[0] == "drop":
                return ("drop", q(s[1]))
            if s[0] == "ren":
                return ("ren", q(s[1]), q(s[2]))
            return ("renm", tuple((q(a), q(b)) for a, b in s[1]))

        sql_q = ";\n".join(C03.render_stmt(qual(s), f, dialect) for s, f in stmts) + ";"
        # join conditions of the renderer use the table name as qualifier: both spellings parse
        return judge_pair(sql, sql_q, dialect, S, "scoped", res_, ctx, "script")

    runner.hyp_run(st.tuples(C03.sql_strategy(), st.integers(0, 20)), body, res, seed=runner.derive_seed(ctx.seed, "C14script", shard), max_examples=n, ctx=ctx)
    return res


def _env_batch(payload):
    """environment mechanism: a batch of cases per schema, each side in its own fresh interpreter"""
    pairs, S, ctx = payload
    res = runner.Res()
    b = views_env([{"sql": p["qualified_sql"], "dialect": p["dialect"], "metadata": p.get("metadata")} for p in pairs], None)
    names = sorted(ENV_MECHANISMS)
    for mi, mech in enumerate(names):
        # every pair under the plain environment mechanism; a third of them under each combined one
        sel = [k for k in range(len(pairs)) if mech == "environment" or k % (len(names) - 1) == mi % (len(names) - 1)]
        env_S, scoped = ENV_MECHANISMS[mech](S)
        a = views_env([{"sql": pairs[k]["sql"], "dialect": pairs[k]["dialect"], "metadata": pairs[k].get("metadata")} for k in sel], env_S, scoped)
        for k, x in zip(sel, a):
            p = pairs[k]
            v = judge_pair(p["sql"], p["qualified_sql"], p["dialect"], S, mech, res, ctx, p["stream"], True, precomputed=(x, b[k]), metadata=p.get("metadata"))
            if v is not None and len(res.violations) < 3:
                res.violation(v["kind"], v["case"], v["detail"])
    return res


def env_cases(ctx, n):
    """deterministic list of (sql, qualified sql) pairs for the environment mechanism"""
    from hypothesis import strategies as st

    out = []

    def body(case, res_):
        (stmt, feats), dsel = case
        if isinstance(stmt, ir.Noop) or not has_unq(stmt) or {"scalar_subquery_select_item", "function_arg_subquery", "case_arm_subqueries"} & set(feats):
            return None
        out.append((stmt, dsel))
        return None

    runner.hyp_run(st.tuples(sqlgen.stmt_tables(1), st.integers(0, 200)), body, runner.Res(), seed=runner.derive_seed(ctx.seed, "C14env"), max_examples=n, ctx=ctx)
    return out


def replay(case):
    S = case["default_schema"]
    if case.get("mechanism") in ENV_MECHANISMS:
        env_S, scoped = ENV_MECHANISMS[case["mechanism"]](S)
        a = views_env([{"sql": case["sql"], "dialect": case["dialect"], "metadata": case.get("metadata")}], env_S, scoped)[0]
        b = views_env([{"sql": case["qualified_sql"], "dialect": case["dialect"], "metadata": case.get("metadata")}], None)[0]
    else:
        a = view_scoped(case["sql"], case["dialect"], S, case.get("metadata"))
        b = view_scoped(case["qualified_sql"], case["dialect"], None, case.get("metadata"))
    d = first_diff(a, b)
    return None if d is None else {"kind": "replay", "case": case, "detail": d}


def run(ctx):
    n = ctx.n(960, 20000)
    res = runner.merge_all(runner.pmap(_ir_worker, [(i, n // runner.NCPU, ctx) for i in range(runner.NCPU)]))
    n2 = ctx.n(320, 6000)
    res.merge(runner.merge_all(runner.pmap(_script_worker, [(i, n2 // runner.NCPU, ctx) for i in range(runner.NCPU)])))
    # dialect-specific creation sites, both mechanisms, every schema spelling
    special = runner.Res()
    for dialect, sql, tpl in SPECIAL:
        for kind, S0 in SCHEMAS:
            S = spell(S0, dialect)
            if S0.startswith("QUOTED") and "'{S}." in tpl:
                continue  # the quoted spelling cannot be written inside a string-literal argument
            v = judge_pair(sql, tpl.format(S=S), dialect, S, "scoped", special, ctx, "special")
            if v is not None:
                special.violation(v["kind"], v["case"], v["detail"])
    for dialect, sql, tpl, md in WITH_METADATA:
        for kind, S0 in SCHEMAS:
            S = spell(S0, dialect)
            v = judge_pair(sql, tpl.format(S=S), dialect, S, "scoped", special, ctx, "with_metadata", metadata=md_for(md, S))
            if v is not None:
                special.violation(v["kind"], v["case"], v["detail"])
    res.merge(special)
    # environment mechanism in fresh interpreters
    stmts = env_cases(ctx, ctx.n(160, 3000))
    batches = []
    for bi, (kind, S0) in enumerate(SCHEMAS):
        S = spell(S0, "ansi")
        pairs = []
        for k, (stmt, dsel) in enumerate(stmts):
            if k % len(SCHEMAS) != bi:
                continue
            sql, sql_q = ir.r_stmt(stmt), ir.r_stmt(ir.qualify(stmt, S))
            if C01.accepted(stmt, sql, "ansi") and C01.accepted(ir.qualify(stmt, S), sql_q, "ansi"):
                pairs.append({"sql": sql, "qualified_sql": sql_q, "dialect": "ansi", "stream": "ir"})
        for dialect, sql, tpl in SPECIAL:
            if not S0.startswith("QUOTED"):
                pairs.append({"sql": sql, "qualified_sql": tpl.format(S=S), "dialect": dialect, "stream": "special"})
        for dialect, sql, tpl, md in WITH_METADATA:
            if not S0.startswith("QUOTED"):
                pairs.append({"sql": sql, "qualified_sql": tpl.format(S=S), "dialect": dialect, "stream": "with_metadata", "metadata": md_for(md, S)})
        batches.append((pairs, S, ctx))
    res.merge(runner.merge_all(runner.pmap(_env_batch, batches)))
    return res
