"""C08 - lineage is invariant under renaming of statement-local names.

Metamorphic, on the IR: a generated statement vs the same statement with (a) an injective renaming of all table aliases,
derived-table aliases and CTE names (new names drawn from fresh names, mixed-case names, non-reserved keywords the dialect's
parser accepts as identifiers, bare names of tables that occur nowhere / somewhere else in the statement), (b) aliases added to
or removed from base tables (qualified references rewritten inside the scope), (c) the optional AS keyword toggled everywhere.
Oracle: source / target / intermediate tables and all end-to-end (root, target column) pairs are identical.
"""
from __future__ import annotations

import dataclasses
import os

from vlib import runner, sqlgen
from vlib import sqlir as ir
from vlib.props import C01, C02

ID = "C08"
LEVEL = "exploration"
RULE = ("case = (IR statement from the C02 generator, transformation in {injective renaming of every alias / CTE name, add-or-remove table aliases, toggle AS}, "
        "name pool in {fresh, MixedCase, keyword-like identifiers, unused table names, names of tables used elsewhere in the statement (finding probe)}, dialect). "
        "Non-trivial = the statement has >= 2 local names and >= 1 qualified reference through a renamed name; distinct = distinct (original SQL, rewritten SQL, dialect).")
ASSUMPTIONS = [
    "both texts must be accepted by the dialect's sqlfluff parser with the IR's parse shape (incl. the alias multiset), otherwise discarded and counted",
    "the generator emits statement-wide unique local names and no two equal-text subqueries (DESIGN 3.2 rule 8), so a global renaming map is capture-free",
    "both sides are analysed in the same interpreter under PYTHONHASHSEED=0",
]

FRESH = ["zq1", "zq2", "zq3", "zq4", "zq5", "zq6", "zq7", "zq8", "zq9", "zr1", "zr2", "zr3", "zr4", "zr5", "zr6", "zr7", "zr8", "zr9", "zs1", "zs2", "zs3", "zs4"]
MIXED = ["ZqA", "Zq_B", "ZQC", "zQd", "Zq_e", "ZQF", "zqG", "ZqH", "ZqI", "zQJ", "Zqk", "ZQl", "zqM", "ZqN", "ZQo", "zQP", "Zq_Q", "ZqR", "zQs", "ZqT", "ZQu", "zqV"]
KEYWORDISH = ["data", "name", "value", "type", "level", "status", "source", "target", "result", "items", "content", "version", "label", "owner", "public",
              "role", "state", "zone", "class", "id", "text", "format"]
UNUSED_TABLES = ["tu1", "tu2", "tu3", "tu4", "tu5", "tu6", "tu7", "tu8", "tu9", "tv1", "tv2", "tv3", "tv4", "tv5", "tv6", "tv7", "tv8", "tv9", "tw1", "tw2", "tw3", "tw4"]
USED_TABLES = [t[1] for t in sqlgen.TABLES]


def local_names(stmt):
    """ordered list of distinct local names (aliases of tables / derived tables / CTE references, CTE names)"""
    names = []

    def add(n):
        if n and n.lower() not in [x.lower() for x in names]:
            names.append(n)

    def visit(x):
        if isinstance(x, (ir.T, ir.CteRef, ir.Derived)):
            add(x.alias)
        if isinstance(x, ir.CteRef):
            add(x.name)
        if isinstance(x, ir.With):
            for n, _ in x.ctes:
                add(n)
        if isinstance(x, ir.CteInsert):
            for n, _ in x.ctes:
                add(n)
        return x

    ir.map_ir(stmt, visit)
    return names


def rename(stmt, mapping):
    m = {k.lower(): v for k, v in mapping.items()}
    g = lambda n: m.get(n.lower(), n) if n else n  # noqa: E731

    def f(x):
        if isinstance(x, ir.T):
            return ir.T(x.schema, x.name, g(x.alias), x.as_kw)
        if isinstance(x, ir.CteRef):
            return ir.CteRef(g(x.name), g(x.alias), x.as_kw)
        if isinstance(x, ir.Derived):
            return ir.Derived(x.q, g(x.alias), x.as_kw)
        if isinstance(x, ir.Col):
            return ir.Col(g(x.qual), x.name)
        if isinstance(x, ir.Star):
            return ir.Star(g(x.qual))
        if isinstance(x, ir.With):
            return ir.With(tuple((g(n), q) for n, q in x.ctes), x.body)
        if isinstance(x, ir.CteInsert):
            return ir.CteInsert(tuple((g(n), q) for n, q in x.ctes), x.ins)
        return x

    return ir.map_ir(stmt, f)


def toggle_as(stmt):
    def f(x):
        if isinstance(x, (ir.T, ir.CteRef, ir.Derived, ir.Item)) and getattr(x, "alias", None):
            return dataclasses.replace(x, as_kw=not x.as_kw)
        return x

    return ir.map_ir(stmt, f)


def toggle_table_aliases(stmt, picks):
    """inside every SELECT: remove the alias of an aliased base table, or give a fresh alias to an un-aliased one; qualified references
    of THAT select (not of nested queries) are rewritten.  picks: list of ints deciding per table."""
    counter = {"n": 0, "k": 0}

    def rewrite_expr(e, old, new):
        def f(x):
            if isinstance(x, ir.Col) and x.qual and x.qual.lower() == old.lower():
                return ir.Col(new, x.name)
            if isinstance(x, ir.Star) and x.qual and x.qual.lower() == old.lower():
                return ir.Star(new)
            return x

        return _map_no_query(e, f)

    def sel(q):
        if isinstance(q, ir.With):
            return ir.With(tuple((n, sel(c)) for n, c in q.ctes), sel(q.body))
        if isinstance(q, ir.SetOp):
            return ir.SetOp(q.ops, tuple(sel(b) for b in q.branches))
        groups = []
        ren = []
        for g in q.frm:
            def item(fi):
                if isinstance(fi, ir.Derived):
                    return ir.Derived(sel(fi.q), fi.alias, fi.as_kw)
                if isinstance(fi, ir.T):
                    counter["k"] += 1
                    pick = picks[counter["k"] % len(picks)] if picks else 0
                    if pick % 3 == 0:
                        return fi
                    full = f"{fi.schema}.{fi.name}" if fi.schema else fi.name
                    if fi.alias:
                        ren.append((fi.alias, full))
                        return ir.T(fi.schema, fi.name, None, True)
                    counter["n"] += 1
                    new = f"zt{counter['n']}"
                    ren.append((full, new))
                    return ir.T(fi.schema, fi.name, new, pick % 2 == 0)
                return fi

            first = item(g.first)
            joins = tuple(ir.Join(j.kind, item(j.item), j.cond) for j in g.joins)
            groups.append(ir.FromGroup(first, joins))
        items, where, having, gb = q.items, q.where, q.having, q.group_by
        new_groups = groups
        for old, new in ren:
            items = tuple(ir.Item(rewrite_expr(i.e, old, new), i.alias, i.as_kw) for i in items)
            where = rewrite_expr(where, old, new) if where is not None else None
            having = rewrite_expr(having, old, new) if having is not None else None
            gb = tuple(rewrite_expr(e, old, new) for e in gb)
            new_groups = [ir.FromGroup(g.first, tuple(ir.Join(j.kind, j.item, (j.cond[0], rewrite_expr(j.cond[1], old, new)) if j.cond and j.cond[0] == "on" else j.cond)
                                                      for j in g.joins)) for g in new_groups]
        # nested queries inside predicates / items keep their own scopes
        where = _map_queries(where, sel) if where is not None else None
        having = _map_queries(having, sel) if having is not None else None
        items = tuple(ir.Item(_map_queries(i.e, sel), i.alias, i.as_kw) for i in items)
        return ir.Select(items, tuple(new_groups), where, q.distinct, gb, having)

    s = stmt
    if isinstance(s, ir.CteInsert):
        return ir.CteInsert(tuple((n, sel(c)) for n, c in s.ctes), dataclasses.replace(s.ins, q=sel(s.ins.q)))
    if getattr(s, "q", None) is not None:
        return dataclasses.replace(s, q=sel(s.q))
    return s


def _map_no_query(node, f):
    """map over an expression / predicate tree without descending into nested queries"""
    if node is None:
        return None
    if isinstance(node, tuple):
        return tuple(_map_no_query(x, f) for x in node)
    if isinstance(node, (ir.Select, ir.SetOp, ir.With)):
        return node
    if dataclasses.is_dataclass(node) and not isinstance(node, type):
        kw = {fl.name: _map_no_query(getattr(node, fl.name), f) for fl in dataclasses.fields(node)}
        return f(type(node)(**kw))
    return node


def _map_queries(node, fq):
    """apply fq to the nested queries of an expression / predicate tree"""
    if node is None:
        return None
    if isinstance(node, tuple):
        return tuple(_map_queries(x, fq) for x in node)
    if isinstance(node, (ir.Select, ir.SetOp, ir.With)):
        return fq(node)
    if dataclasses.is_dataclass(node) and not isinstance(node, type):
        kw = {fl.name: _map_queries(getattr(node, fl.name), fq) for fl in dataclasses.fields(node)}
        return type(node)(**kw)
    return node


def view(sql, dialect):
    got = C02.actual(sql, dialect)
    if "EXC" in got:
        return got
    got["pairs"] = [list(p) for p in C02.norm_pairs([tuple(p) for p in got["pairs"]])]
    return got


def compare(a, b, mapping=None):
    if "EXC" in a or "EXC" in b:
        if a.get("EXC") != b.get("EXC"):
            return {"what": "exception differs", "original": a.get("EXC"), "rewritten": b.get("EXC"), "msg": b.get("msg") or a.get("msg")}
        return None
    for k in ("S", "T"):
        if a[k] != b[k]:
            return {"what": f"{k} differ", "original": a[k], "rewritten": b[k]}
    pa = a["pairs"]
    if mapping:  # a root that is a column of a renamed subquery follows the renaming
        m = {k.lower(): v.lower() for k, v in mapping.items()}
        pa = sorted([".".join(m.get(x, x) for x in p[0].split(".")) if p[0].count(".") == 1 else p[0], p[1]] for p in pa)
    if sorted(map(tuple, pa)) != sorted(map(tuple, b["pairs"])):
        sa, sb = {tuple(p) for p in pa}, {tuple(p) for p in b["pairs"]}
        return {"what": "column pairs differ", "only_original": sorted(sa - sb)[:6], "only_rewritten": sorted(sb - sa)[:6]}
    return None


def classify(case, detail):
    if case.get("pool") == "used_tables" and detail.get("what") in ("column pairs differ", "S differ"):
        return "K-alias-vs-tablename@C08"
    return None


POOLS = {"fresh": FRESH, "mixed": MIXED, "keywordish": KEYWORDISH, "unused_tables": UNUSED_TABLES, "used_tables": USED_TABLES}


def _worker(payload):
    shard, n, ctx = payload
    from hypothesis import strategies as st

    res = runner.Res()
    dl = C01.all_dialects()

    def body(case, res_):
        stmt, tsel, psel, perm, picks, dsel = case
        names = local_names(stmt)
        dialect = "ansi" if dsel < 70 else dl[dsel % len(dl)]
        kind = ["rename", "rename", "rename", "toggle_aliases", "toggle_as"][tsel % 5]
        mapping = None
        pool_name = None
        if kind == "rename":
            if not names:
                res_.discard("no_local_names")
                return None
            pool_name = sorted(POOLS)[psel % len(POOLS)]
            pool = POOLS[pool_name]
            if pool_name == "used_tables":
                pool = [p for p in pool] + FRESH
            order = sorted(range(len(pool)), key=lambda i: (perm * 7919 + i * 104729) % 1000003)
            if len(names) > len(pool):
                res_.discard("more_local_names_than_pool")
                return None
            mapping = {n: pool[order[i]] for i, n in enumerate(names)}
            if pool_name == "used_tables":
                # a CTE named like a table the statement uses would capture that table: only aliases take such names
                cte_names = {n.lower() for n in names if n.lower() in {c.lower() for c in sqlgen.CTES}}
                for i, n in enumerate(names):
                    if n.lower() in cte_names:
                        mapping[n] = "zc" + str(i)
            stmt2 = rename(stmt, mapping)
        elif kind == "toggle_aliases":
            stmt2 = toggle_table_aliases(stmt, picks)
        else:
            stmt2 = toggle_as(stmt)
        sql, sql2 = ir.r_stmt(stmt), ir.r_stmt(stmt2)
        if sql == sql2:
            res_.discard("no_change")
            return None
        for s_, q_ in ((stmt, sql), (stmt2, sql2)):
            acc = C01.accepted(s_, q_, dialect)
            if not acc:
                res_.discard(("rejected_by_dialect:" if acc is None else "parser_divergent:") + dialect)
                return None
        nrefs = sql.count(".")  # qualified references present
        nt = (len(names) >= 2 and nrefs >= 1) if kind == "rename" else nrefs >= 1
        c = {"original": sql, "rewritten": sql2, "dialect": dialect, "transformation": kind, "pool": pool_name, "mapping": mapping}
        res_.case((sql, sql2, dialect), nt, labels=["transformation:" + kind, "dialect:" + dialect] + (["pool:" + pool_name] if pool_name else []),
                  sample=c if len(sql) < 260 else None)
        d = compare(view(sql, dialect), view(sql2, dialect), mapping)
        if d is None:
            return None
        fid = classify(c, d)
        if fid and fid in ctx.active:
            res_.known(fid, c)
            return None
        if os.environ.get("VERIF_COLLECT"):
            res_.known("UNLISTED | " + kind + " | " + str(pool_name) + " | " + d["what"] + " | " + dialect, c)
            return None
        return {"kind": kind, "case": c, "detail": d}

    strat = st.tuples(sqlgen.stmt(1 + shard % 2), st.integers(0, 100), st.integers(0, 100), st.integers(0, 10 ** 6),
                      st.lists(st.integers(0, 5), min_size=1, max_size=8), st.integers(0, 200))
    runner.hyp_run(strat, body, res, seed=runner.derive_seed(ctx.seed, "C08", shard), max_examples=n, ctx=ctx)
    return res


def replay(case):
    d = compare(view(case["original"], case["dialect"]), view(case["rewritten"], case["dialect"]), case.get("mapping"))
    return None if d is None else {"kind": "replay", "case": case, "detail": d}


def run(ctx):
    n = ctx.n(1600, 30000)
    return runner.merge_all(runner.pmap(_worker, [(i, n // runner.NCPU, ctx) for i in range(runner.NCPU)]))
