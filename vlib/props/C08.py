"""C08 - lineage is invariant under renaming of statement-local names.

Metamorphic, on the IR: a generated statement vs the same statement with (a) an injective renaming of all table aliases,
derived-table aliases and CTE names (new names drawn from fresh names, mixed-case names, non-reserved keywords the dialect's
parser accepts as identifiers, bare names of tables that occur nowhere / somewhere else in the statement), (b) aliases added to
or removed from base tables (qualified references rewritten inside the scope), (c) the optional AS keyword toggled everywhere.
Oracle: source / target / intermediate tables and all end-to-end (root, target column) pairs are identical.
"""
from __future__ import annotations

import dataclasses
import itertools
import os

from vlib import rewrite, runner, sqlgen
from vlib import sqlir as ir
from vlib.props import C01, C02

ID = "C08"
LEVEL = "exploration"
RULE = ("case = (IR statement from the C02 generator, transformation in {injective renaming of every alias / CTE name, add-or-remove table aliases, toggle AS}, "
        "name pool in {fresh, MixedCase, keyword-like identifiers, unused table names, names of tables used elsewhere in the statement (finding probe)}, dialect). "
        "Non-trivial = the statement has >= 2 local names and >= 1 qualified reference through a renamed name; distinct = distinct (original SQL, rewritten SQL, dialect).")
ASSUMPTIONS = [
    "both texts must be accepted by the dialect's sqlfluff parser with the IR's parse shape (incl. the alias multiset), otherwise discarded and counted",
    "the generator emits statement-wide unique local names and no two equal-text subqueries (DESIGN 3.2 rule 8), so a global renaming map is capture-free",
    "both sides are analysed in the same interpreter under PYTHONHASHSEED=0",
]

FRESH = ["zq1", "zq2", "zq3", "zq4", "zq5", "zq6", "zq7", "zq8", "zq9", "zr1", "zr2", "zr3", "zr4", "zr5", "zr6", "zr7", "zr8", "zr9", "zs1", "zs2", "zs3", "zs4"]
MIXED = ["ZqA", "Zq_B", "ZQC", "zQd", "Zq_e", "ZQF", "zqG", "ZqH", "ZqI", "zQJ", "Zqk", "ZQl", "zqM", "ZqN", "ZQo", "zQP", "Zq_Q", "ZqR", "zQs", "ZqT", "ZQu", "zqV"]
KEYWORDISH = ["data", "name", "value", "type", "level", "status", "source", "target", "result", "items", "content", "version", "label", "owner", "public",
              "role", "state", "zone", "class", "id", "text", "format"]
UNUSED_TABLES = ["tu1", "tu2", "tu3", "tu4", "tu5", "tu6", "tu7", "tu8", "tu9", "tv1", "tv2", "tv3", "tv4", "tv5", "tv6", "tv7", "tv8", "tv9", "tw1", "tw2", "tw3", "tw4"]
USED_TABLES = [t[1] for t in sqlgen.TABLES]


def local_names(stmt):
    """ordered list of distinct local names (aliases of tables / derived tables / CTE references, CTE names)"""
    names = []

    def add(n):
        if n and n.lower() not in [x.lower() for x in names]:
            names.append(n)

    def visit(x):
        if isinstance(x, (ir.T, ir.CteRef, ir.Derived)):
            add(x.alias)
        if isinstance(x, ir.CteRef):
            add(x.name)
        if isinstance(x, ir.With):
            for n, _ in x.ctes:
                add(n)
        if isinstance(x, ir.CteInsert):
            for n, _ in x.ctes:
                add(n)
        return x

    ir.map_ir(stmt, visit)
    return names


def name_doubles_as_table(stmt):
    """a local name that is also the bare name of an unaliased table of the statement ('FROM (SELECT tu.c FROM tu) AS tu'): the scope-blind renaming
    below would rewrite the qualifiers that mean the table, so it is not applied to such statements (per-scope reuse and toggles are)"""
    local = {n.lower() for n in local_names(stmt)}
    bare = []
    ir.map_ir(stmt, lambda x: (bare.append(x.name.lower()), x)[1] if isinstance(x, ir.T) and not x.alias else x)
    return bool(local & set(bare))


def rename(stmt, mapping):
    m = {k.lower(): v for k, v in mapping.items()}
    g = lambda n: m.get(n.lower(), n) if n else n  # noqa: E731

    def f(x):
        if isinstance(x, ir.T):
            return ir.T(x.schema, x.name, g(x.alias), x.as_kw)
        if isinstance(x, ir.CteRef):
            return ir.CteRef(g(x.name), g(x.alias), x.as_kw)
        if isinstance(x, ir.Derived):
            return ir.Derived(x.q, g(x.alias), x.as_kw)
        if isinstance(x, ir.Col):
            return ir.Col(g(x.qual), x.name)
        if isinstance(x, ir.Star):
            return ir.Star(g(x.qual))
        if isinstance(x, ir.With):
            return ir.With(tuple((g(n), q) for n, q in x.ctes), x.body, x.recursive)
        if isinstance(x, ir.CteInsert):
            return ir.CteInsert(tuple((g(n), q) for n, q in x.ctes), x.ins)
        return x

    return ir.map_ir(stmt, f)


def toggle_as(stmt):
    def f(x):
        if isinstance(x, (ir.T, ir.CteRef, ir.Derived, ir.Item)) and getattr(x, "alias", None):
            return dataclasses.replace(x, as_kw=not x.as_kw)
        return x

    return ir.map_ir(stmt, f)


def toggle_table_aliases(stmt, picks):
    """inside every SELECT: remove the alias of an aliased base table, or give a fresh alias to an un-aliased one; qualified references
    of THAT select (not of nested queries) are rewritten.  picks: list of ints deciding per table."""
    counter = {"n": 0, "k": 0}

    def rewrite_expr(e, old, new):
        def f(x):
            if isinstance(x, ir.Col) and x.qual and x.qual.lower() == old.lower():
                return ir.Col(new, x.name)
            if isinstance(x, ir.Star) and x.qual and x.qual.lower() == old.lower():
                return ir.Star(new)
            return x

        return _map_no_query(e, f)

    def sel(q):
        if isinstance(q, ir.With):
            return ir.With(tuple((n, sel(c)) for n, c in q.ctes), sel(q.body), q.recursive)
        if isinstance(q, ir.SetOp):
            return ir.SetOp(q.ops, tuple(sel(b) for b in q.branches))
        groups = []
        ren = []
        for g in q.frm:
            def item(fi):
                if isinstance(fi, ir.Derived):
                    return ir.Derived(sel(fi.q), fi.alias, fi.as_kw)
                if isinstance(fi, ir.T):
                    counter["k"] += 1
                    pick = picks[counter["k"] % len(picks)] if picks else 0
                    if pick % 3 == 0:
                        return fi
                    full = f"{fi.schema}.{fi.name}" if fi.schema else fi.name
                    if fi.alias:
                        ren.append((fi.alias, full))
                        return ir.T(fi.schema, fi.name, None, True)
                    counter["n"] += 1
                    new = f"zt{counter['n']}"
                    ren.append((full, new))
                    return ir.T(fi.schema, fi.name, new, pick % 2 == 0)
                return fi

            first = item(g.first)
            joins = tuple(ir.Join(j.kind, item(j.item), j.cond) for j in g.joins)
            groups.append(ir.FromGroup(first, joins))
        items, where, having, gb = q.items, q.where, q.having, q.group_by
        new_groups = groups
        for old, new in ren:
            items = tuple(ir.Item(rewrite_expr(i.e, old, new), i.alias, i.as_kw) for i in items)
            where = rewrite_expr(where, old, new) if where is not None else None
            having = rewrite_expr(having, old, new) if having is not None else None
            gb = tuple(rewrite_expr(e, old, new) for e in gb)
            new_groups = [ir.FromGroup(g.first, tuple(ir.Join(j.kind, j.item, (j.cond[0], rewrite_expr(j.cond[1], old, new)) if j.cond and j.cond[0] == "on" else j.cond)
                                                      for j in g.joins)) for g in new_groups]
        # nested queries inside predicates / items keep their own scopes
        where = _map_queries(where, sel) if where is not None else None
        having = _map_queries(having, sel) if having is not None else None
        items = tuple(ir.Item(_map_queries(i.e, sel), i.alias, i.as_kw) for i in items)
        return ir.Select(items, tuple(new_groups), where, q.distinct, gb, having)

    s = stmt
    if isinstance(s, ir.CteInsert):
        return ir.CteInsert(tuple((n, sel(c)) for n, c in s.ctes), dataclasses.replace(s.ins, q=sel(s.ins.q)))
    if getattr(s, "q", None) is not None:
        return dataclasses.replace(s, q=sel(s.q))
    p = _pseudo_select(s)
    if p is not None:
        return _from_pseudo(s, sel(p))
    return s


def _pseudo_select(s):
    """UPDATE ... FROM / MERGE ... USING as a query block: the SET / INSERT expressions are its items, FROM / USING its FROM clause, WHERE / ON its
    predicate (the target and its alias are in scope too, but carry no alias the rewrite touches)"""
    if isinstance(s, ir.Update) and s.frm:
        return ir.Select(tuple(ir.Item(e) for _, e in s.sets), tuple(s.frm), s.where)
    if isinstance(s, ir.Merge) and not s.more:
        return ir.Select(tuple(ir.Item(e) for _, e in tuple(s.upd) + tuple(s.ins)), (ir.FromGroup(s.src),), s.on)
    return None


def _from_pseudo(s, r):
    if isinstance(s, ir.Update):
        return dataclasses.replace(s, sets=tuple((c, i.e) for (c, _), i in zip(s.sets, r.items)), frm=tuple(r.frm), where=r.where)
    n = len(s.upd)
    exprs = [i.e for i in r.items]
    return dataclasses.replace(s, src=r.frm[0].first, on=r.where, upd=tuple((c, e) for (c, _), e in zip(s.upd, exprs[:n])),
                               ins=tuple((c, e) for (c, _), e in zip(s.ins, exprs[n:])))


def rename_per_scope(stmt, include_derived=True):
    """inside every SELECT the aliases of its own FROM items are renamed to n1, n2, .. in order, so the SAME names are reused in sibling and nested
    scopes (legal SQL: an alias is local to its query block; the generator emits no correlated references).  Qualified references of that
    select (not of nested queries) are rewritten."""
    def rewrite_expr(e, ren):
        m = {k.lower(): v for k, v in ren}

        def f(x):
            if isinstance(x, ir.Col) and x.qual and x.qual.lower() in m:
                return ir.Col(m[x.qual.lower()], x.name)
            if isinstance(x, ir.Star) and x.qual and x.qual.lower() in m:
                return ir.Star(m[x.qual.lower()])
            return x

        return _map_no_query(e, f)

    def sel(q):
        if isinstance(q, ir.With):
            return ir.With(tuple((n, sel(c)) for n, c in q.ctes), sel(q.body), q.recursive)
        if isinstance(q, ir.SetOp):
            return ir.SetOp(q.ops, tuple(sel(b) for b in q.branches))
        ren = []
        counter = [0]

        def item(fi):
            if isinstance(fi, ir.Derived):
                inner = sel(fi.q)
                if include_derived:
                    counter[0] += 1
                    ren.append((fi.alias, f"n{counter[0]}"))
                    return ir.Derived(inner, f"n{counter[0]}", fi.as_kw)
                return ir.Derived(inner, fi.alias, fi.as_kw)
            if isinstance(fi, (ir.T, ir.CteRef)) and fi.alias:
                counter[0] += 1
                ren.append((fi.alias, f"n{counter[0]}"))
                return dataclasses.replace(fi, alias=f"n{counter[0]}")
            return fi

        groups = [ir.FromGroup(item(g.first), tuple(ir.Join(j.kind, item(j.item), j.cond) for j in g.joins)) for g in q.frm]
        groups = [ir.FromGroup(g.first, tuple(ir.Join(j.kind, j.item, (j.cond[0], rewrite_expr(j.cond[1], ren)) if j.cond and j.cond[0] == "on" else j.cond)
                                              for j in g.joins)) for g in groups]
        items = tuple(ir.Item(_map_queries(rewrite_expr(i.e, ren), sel), i.alias, i.as_kw) for i in q.items)
        where = _map_queries(rewrite_expr(q.where, ren), sel) if q.where is not None else None
        having = _map_queries(rewrite_expr(q.having, ren), sel) if q.having is not None else None
        gb = tuple(rewrite_expr(e, ren) for e in q.group_by)
        return ir.Select(items, tuple(groups), where, q.distinct, gb, having)

    s = stmt
    if isinstance(s, ir.CteInsert):
        return ir.CteInsert(tuple((n, sel(c)) for n, c in s.ctes), dataclasses.replace(s.ins, q=sel(s.ins.q)))
    if getattr(s, "q", None) is not None:
        return dataclasses.replace(s, q=sel(s.q))
    p = _pseudo_select(s)
    if p is not None:
        return _from_pseudo(s, sel(p))
    return s


def _pseudo_select(s):
    """UPDATE ... FROM / MERGE ... USING as a query block: the SET / INSERT expressions are its items, FROM / USING its FROM clause, WHERE / ON its
    predicate (the target and its alias are in scope too, but carry no alias the rewrite touches)"""
    if isinstance(s, ir.Update) and s.frm:
        return ir.Select(tuple(ir.Item(e) for _, e in s.sets), tuple(s.frm), s.where)
    if isinstance(s, ir.Merge) and not s.more:
        return ir.Select(tuple(ir.Item(e) for _, e in tuple(s.upd) + tuple(s.ins)), (ir.FromGroup(s.src),), s.on)
    return None


def _from_pseudo(s, r):
    if isinstance(s, ir.Update):
        return dataclasses.replace(s, sets=tuple((c, i.e) for (c, _), i in zip(s.sets, r.items)), frm=tuple(r.frm), where=r.where)
    n = len(s.upd)
    exprs = [i.e for i in r.items]
    return dataclasses.replace(s, src=r.frm[0].first, on=r.where, upd=tuple((c, e) for (c, _), e in zip(s.upd, exprs[:n])),
                               ins=tuple((c, e) for (c, _), e in zip(s.ins, exprs[n:])))


def _map_no_query(node, f):
    """map over an expression / predicate tree without descending into nested queries"""
    if node is None:
        return None
    if isinstance(node, tuple):
        return tuple(_map_no_query(x, f) for x in node)
    if isinstance(node, (ir.Select, ir.SetOp, ir.With)):
        return node
    if dataclasses.is_dataclass(node) and not isinstance(node, type):
        kw = {fl.name: _map_no_query(getattr(node, fl.name), f) for fl in dataclasses.fields(node)}
        return f(type(node)(**kw))
    return node


def _map_queries(node, fq):
    """apply fq to the nested queries of an expression / predicate tree"""
    if node is None:
        return None
    if isinstance(node, tuple):
        return tuple(_map_queries(x, fq) for x in node)
    if isinstance(node, (ir.Select, ir.SetOp, ir.With)):
        return fq(node)
    if dataclasses.is_dataclass(node) and not isinstance(node, type):
        kw = {fl.name: _map_queries(getattr(node, fl.name), fq) for fl in dataclasses.fields(node)}
        return type(node)(**kw)
    return node


def alias_ambiguities(stmt):
    """K-alias-reuse trigger, read off the IR: sqllineage keeps ONE alias edge set per statement, so in a scope S1 that contains base table X and a
    relation Y aliased q, the qualifier q is ambiguous as soon as X carries the alias q in ANOTHER scope S2.  Returns the set of relations between
    S1 and S2: 'from_child' (S2 is reached from S1 through derived tables in FROM only - the unchanged tree resolves these correctly, the outer
    alias edge is added last) or 'other' (WHERE / select-list subquery, sibling set-operation branch, CTE body ...)."""
    scopes = []  # (scope id, path of (parent id, edge kind), [(table key | None, alias)])
    derived_aliases = []  # (scope id of the block that has the derived table, its alias, that block's path)

    def sel(q, path):
        if isinstance(q, ir.With):
            for _, c in q.ctes:
                sel(c, path + [("cte", None)])
            sel(q.body, path)
            return
        if isinstance(q, ir.SetOp):
            for i, b in enumerate(q.branches):
                sel(b, path + [("branch", i)])
            return
        sid = len(scopes)
        rels = []
        scopes.append((sid, list(path), rels))

        def item(fi):
            if isinstance(fi, ir.T):
                rels.append((ir.tkey(fi), (fi.alias or "").lower() or None))
            elif isinstance(fi, ir.CteRef):
                rels.append((None, (fi.alias or fi.name).lower()))
            elif isinstance(fi, ir.Derived):
                rels.append((None, fi.alias.lower()))
                derived_aliases.append((sid, fi.alias.lower(), list(path)))
                sel(fi.q, path + [("from", sid, fi.alias.lower())])
            elif isinstance(fi, ir.Nested):
                item(fi.group.first)
                for j in fi.group.joins:
                    item(j.item)

        for g in q.frm:
            item(g.first)
            for j in g.joins:
                item(j.item)

        def sub(node):
            _map_queries(node, lambda qq: (sel(qq, path + [("expr", sid)]), qq)[1])

        for it in q.items:
            sub(it.e)
        sub(q.where)
        sub(q.having)

    s = stmt
    if isinstance(s, ir.CteInsert):
        for _, c in s.ctes:
            sel(c, [("cte", None)])
        s = s.ins
    if getattr(s, "q", None) is not None:
        sel(s.q, [])
    elif _pseudo_select(s) is not None:
        sel(_pseudo_select(s), [])
    kinds = set()
    for sid1, path1, rels1 in scopes:
        for x, _ in rels1:
            if x is None:
                continue
            for y, q in rels1:
                if q is None or (y == x):
                    continue
                for sid2, path2, rels2 in scopes:
                    if sid2 == sid1:
                        continue
                    if any(x2 == x and q2 == q for x2, q2 in rels2):
                        # is S2 below S1 through FROM-derived tables only?
                        tail = path2[len(path1):] if path2[:len(path1)] == path1 else None
                        if tail is not None and tail and all(e[0] == "from" for e in tail) and tail[0][1] == sid1 and y is not None:
                            kinds.add("from_child")  # Y is a base table: resolved correctly on the unchanged tree
                        else:
                            kinds.add("other")
    # second trigger (seen by the thorough tier): the alias q of a DERIVED table of block S1 is carried by a base table somewhere INSIDE that derived table,
    # in a block reached through a WHERE / select-list subquery: 'FROM (SELECT .. WHERE x IN (SELECT .. FROM tc n1)) n1' resolves the outer n1.c to tc
    for sid1, q, path1 in derived_aliases:
        prefix = path1 + [("from", sid1, q)]
        for sid2, path2, rels2 in scopes:
            if path2[:len(prefix)] == prefix and any(x2 is not None and q2 == q for x2, q2 in rels2):
                if any(e[0] != "from" for e in path2[len(prefix):]):
                    kinds.add("other")
    return kinds


def view(sql, dialect):
    got = C02.actual(sql, dialect)
    if "EXC" in got:
        return got
    got["pairs"] = [list(p) for p in C02.norm_pairs([tuple(p) for p in got["pairs"]])]
    return got


def compare(a, b, mapping=None):
    if "EXC" in a or "EXC" in b:
        if a.get("EXC") != b.get("EXC"):
            return {"what": "exception differs", "original": a.get("EXC"), "rewritten": b.get("EXC"), "msg": b.get("msg") or a.get("msg")}
        return None
    for k in ("S", "T"):
        if a[k] != b[k]:
            return {"what": f"{k} differ", "original": a[k], "rewritten": b[k]}
    pa = a["pairs"]
    if mapping:  # a root that is a column of a renamed subquery follows the renaming
        m = {k.lower(): v.lower() for k, v in mapping.items()}
        pa = sorted([".".join(m.get(x, x) for x in p[0].split(".")) if p[0].count(".") == 1 else p[0], p[1]] for p in pa)
    if sorted(map(tuple, pa)) != sorted(map(tuple, b["pairs"])):
        sa, sb = {tuple(p) for p in pa}, {tuple(p) for p in b["pairs"]}
        return {"what": "column pairs differ", "only_original": sorted(sa - sb)[:6], "only_rewritten": sorted(sb - sa)[:6]}
    return None


def classify(case, detail):
    if case.get("dialect") == "clickhouse" and detail.get("what") == "S differ" and " WHERE " in case.get("original", "").upper() and (
            set(detail["original"]) < set(detail["rewritten"]) or set(detail["rewritten"]) < set(detail["original"])):
        # clickhouse loses the tables of WHERE subqueries depending on how the compared column is spelled (K-clickhouse-where-subquery@C01)
        return "K-clickhouse-where-subquery@C08"
    if str(case.get("transformation", "")).startswith("reuse_per_scope") and (case.get("alias_ambiguities") or []) and detail.get("what") in (
            "column pairs differ", "S differ"):
        return "K-alias-reuse@C08"
    if case.get("pool") == "used_tables" and detail.get("what") in ("column pairs differ", "S differ"):
        return "K-alias-vs-tablename@C08"
    return None


POOLS = {"fresh": FRESH, "mixed": MIXED, "keywordish": KEYWORDISH, "unused_tables": UNUSED_TABLES, "used_tables": USED_TABLES}


def _worker(payload):
    shard, n, ctx = payload
    from hypothesis import strategies as st

    res = runner.Res()
    dl = C01.all_dialects()

    def body(case, res_):
        stmt, tsel, psel, perm, picks, dsel = case
        names = local_names(stmt)
        dialect = "ansi" if dsel < 70 else dl[dsel % len(dl)]
        kind = ["rename", "rename", "rename", "toggle_aliases", "toggle_as", "reuse_per_scope", "reuse_per_scope_tables_only"][tsel % 7]
        mapping = None
        pool_name = None
        if kind == "rename":
            if not names:
                res_.discard("no_local_names")
                return None
            if name_doubles_as_table(stmt):
                res_.discard("local_name_doubles_as_table_name")
                return None
            pool_name = sorted(POOLS)[psel % len(POOLS)]
            pool = POOLS[pool_name]
            if pool_name == "used_tables":
                pool = [p for p in pool] + FRESH
            order = sorted(range(len(pool)), key=lambda i: (perm * 7919 + i * 104729) % 1000003)
            if len(names) > len(pool):
                res_.discard("more_local_names_than_pool")
                return None
            mapping = {n: pool[order[i]] for i, n in enumerate(names)}
            if pool_name == "used_tables":
                # a CTE named like a table the statement uses would capture that table: only aliases take such names
                cte_names = {n.lower() for n in names if n.lower() in {c.lower() for c in sqlgen.CTES}}
                for i, n in enumerate(names):
                    if n.lower() in cte_names:
                        mapping[n] = "zc" + str(i)
            stmt2 = rename(stmt, mapping)
        elif kind == "toggle_aliases":
            stmt2 = toggle_table_aliases(stmt, picks)
        elif kind.startswith("reuse_per_scope"):
            stmt2 = rename_per_scope(stmt, include_derived=kind == "reuse_per_scope")
        else:
            stmt2 = toggle_as(stmt)
        sql, sql2 = ir.r_stmt(stmt), ir.r_stmt(stmt2)
        if sql == sql2:
            res_.discard("no_change")
            return None
        for s_, q_ in ((stmt, sql), (stmt2, sql2)):
            acc = C01.accepted(s_, q_, dialect)
            if not acc:
                res_.discard(("rejected_by_dialect:" if acc is None else "parser_divergent:") + dialect)
                return None
        nrefs = sql.count(".")  # qualified references present
        nt = (len(names) >= 2 and nrefs >= 1) if kind == "rename" else nrefs >= 1
        c = {"original": sql, "rewritten": sql2, "dialect": dialect, "transformation": kind, "pool": pool_name, "mapping": mapping}
        if kind.startswith("reuse_per_scope"):
            c["alias_ambiguities"] = sorted(alias_ambiguities(stmt2))
        res_.case((sql, sql2, dialect), nt, labels=["transformation:" + kind, "dialect:" + dialect] + (["pool:" + pool_name] if pool_name else []),
                  sample=c if len(sql) < 260 else None)
        d = compare(view(sql, dialect), view(sql2, dialect), mapping)
        if d is None:
            return None
        fid = classify(c, d)
        if fid and fid in ctx.active:
            res_.known(fid, c)
            return None
        if os.environ.get("VERIF_COLLECT"):
            res_.known("UNLISTED | " + kind + " | " + str(pool_name) + " | " + d["what"] + " | " + dialect, c)
            return None
        return {"kind": kind, "case": c, "detail": d}

    strat = st.tuples(sqlgen.stmt(1 + shard % 2), st.integers(0, 100), st.integers(0, 100), st.integers(0, 10 ** 6),
                      st.lists(st.integers(0, 5), min_size=1, max_size=8), st.integers(0, 200))
    runner.hyp_run(strat, body, res, seed=runner.derive_seed(ctx.seed, "C08", shard), max_examples=n, ctx=ctx)
    return res


def crafted_statements():
    """query blocks that can legally share alias names: sibling derived tables one of which nests another derived table, subqueries in WHERE, set-operation
    branches, the same base table under different aliases in different blocks - all with pass-through column names"""
    I, C, T, D, S, G, J = ir.Item, ir.Col, ir.T, ir.Derived, ir.Select, ir.FromGroup, ir.Join
    on = lambda a, b, c="x": ("on", ir.Cmp(C(a, c), "=", C(b, c)))  # noqa: E731
    base = lambda t, c="x": S((I(C(None, c)),), (G(T(None, t)),))  # noqa: E731
    tgt = T(None, "tgt")
    out = []
    out.append(ir.Insert(tgt, None, S((I(C("a", "x")), I(C("b", "x"), "y")), (G(D(base("t1"), "a", False), (J("JOIN", D(S((I(C("c", "x")),), (G(D(base("t2"), "c", False)),)), "b", False), on("a", "b")),)),))))
    out.append(ir.Insert(tgt, None, S((I(C("sq", "x")),), (G(D(base("t1"), "sq", True)),), ir.InSub(C("sq", "x"), S((I(C("c", "x")),), (G(D(base("t2"), "c", True)),))))))
    out.append(ir.Ctas(tgt, S((I(C("d", "k")), I(C("e", "k"), "k2")), (G(D(base("t1", "k"), "d", True), (J("LEFT JOIN", D(S((I(C("f", "k")),), (G(D(ir.SetOp(("UNION ALL",), (base("t2", "k"), base("t3", "k"))), "f", True)),)), "e", True), on("d", "e", "k")),)),)), "CREATE TABLE", False))
    out.append(ir.Insert(tgt, None, S((I(C("a", "x")), I(C("b", "y"))), (G(T(None, "t1", "a", False), (J("JOIN", T(None, "t2", "b", False), on("a", "b", "k")), J("JOIN", D(S((I(C("c", "y")),), (G(T(None, "t2", "c", False)),)), "sq", False), on("sq", "b", "y")))),))))
    out.append(ir.Insert(tgt, None, ir.SetOp(("UNION ALL", "UNION ALL"), (S((I(C("a", "x")),), (G(D(base("t1"), "a", True)),)), S((I(C("b", "x")),), (G(D(base("t2"), "b", True)),)),
                                                                        S((I(C("c", "x")),), (G(T(None, "t3", "c", True), (J("JOIN", T(None, "t1", "d", True), on("c", "d", "k")),)),))))))
    out.append(ir.CreateView(tgt, None, S((I(C("a", "x")), I(C("b", "x"), "y"), I(C("c", "x"), "z")), (G(D(base("t1"), "a", True)), G(D(base("t2"), "b", True)), G(D(S((I(C("d", "x")),), (G(D(S((I(C("e", "x")),), (G(D(base("t3"), "e", True)),)), "d", True)),)), "c", True)))), "CREATE VIEW", False))
    out.append(ir.Insert(tgt, None, S((I(C("a", "x")), I(C("b", "y"))), (G(T(None, "t1", "a", True), (J("JOIN", T("s1", "t2", "b", True), on("a", "b", "k")),)),), ir.Exists(S((I(C("c", "k")),), (G(T(None, "t1", "c", True), (J("JOIN", T(None, "t3", "d", True), on("c", "d", "k")),)),))))))
    # recursive CTEs: the body reads its own name (JOIN form, comma form with an alias); renaming the CTE must not turn the self-reference into a table
    rec1 = ir.SetOp(("UNION ALL",), (S((I(C(None, "x")), I(C(None, "k"))), (G(T(None, "t1")),)),
                                    S((I(C("tr", "x")), I(C("tr", "k"))), (G(T(None, "t2", "tr", False), (J("JOIN", ir.CteRef("q1"), ("on", ir.Cmp(C("tr", "k"), "=", C("q1", "x")))),)),))))
    out.append(ir.Insert(tgt, None, ir.With((("q1", rec1),), S((I(C("q1", "x")),), (G(ir.CteRef("q1")),)), True)))
    rec2 = ir.SetOp(("UNION ALL",), (S((I(C(None, "x")), I(C(None, "k"))), (G(T("s1", "t1")),)),
                                    S((I(C("tr", "x")), I(C("r", "k"))), (G(T(None, "t2", "tr", True)), G(ir.CteRef("q1", "r", True))), ir.Cmp(C("tr", "k"), "=", C("r", "x")))))
    out.append(ir.CreateView(tgt, None, ir.With((("q0", base("t3")), ("q1", rec2)), S((I(C("z", "x")), I(C("q0", "x"), "y")), (G(ir.CteRef("q1", "z", True), (J("JOIN", ir.CteRef("q0"), on("z", "q0")),)),)), True), "CREATE VIEW", False))
    return out


def _skeleton_worker(payload):
    """deterministic stream: the C02 skeleton product (item kind x scope x nesting x set-operation arity) under every transformation; nesting 2 gives
    derived tables inside derived tables that per-scope reuse names identically, with pass-through column names"""
    shard, nshards, ctx = payload
    res = runner.Res()
    crafted = [(st_, ["crafted", "nest=2"]) for st_ in crafted_statements()] + [(st_, ["crafted"] + f) for st_, f in C02.update_merge_statements()]
    for idx, (stmt, feats) in enumerate(itertools.chain(crafted, C02.skeletons())):
        if idx % nshards != shard:
            continue
        if "crafted" in feats:
            pass
        elif "nest=0" in feats and "scope:derived" not in feats and "scope:derived_join_table" not in feats and "scope:cte" not in feats:
            continue
        if "crafted" not in feats and ctx.quick and (idx // nshards + ctx.seed) % 4:
            continue
        if ctx.out_of_time():
            res.budget_exhausted = True
            break
        names = local_names(stmt)
        variants = [("reuse_per_scope", rename_per_scope(stmt, True), None), ("reuse_per_scope_tables_only", rename_per_scope(stmt, False), None),
                    ("toggle_as", toggle_as(stmt), None)]
        if names and len(names) <= len(MIXED) and not name_doubles_as_table(stmt):
            mp = {n: MIXED[i] for i, n in enumerate(names)}
            variants.append(("rename", rename(stmt, mp), mp))
        sql = ir.r_stmt(stmt)
        if not C01.accepted(stmt, sql, "ansi"):
            res.discard("parser_divergent_or_rejected")
            continue
        base = None
        for kind, stmt2, mapping in variants:
            sql2 = ir.r_stmt(stmt2)
            if sql2 == sql or not C01.accepted(stmt2, sql2, "ansi"):
                res.discard("no_change_or_rejected")
                continue
            base = base or view(sql, "ansi")
            c = {"original": sql, "rewritten": sql2, "dialect": "ansi", "transformation": kind, "pool": "mixed" if mapping else None, "mapping": mapping}
            if kind.startswith("reuse_per_scope"):
                c["alias_ambiguities"] = sorted(alias_ambiguities(stmt2))
            res.case((sql, sql2, "ansi"), True, labels=["skeleton", "transformation:" + kind] + [f for f in feats if f.startswith("nest=")], sample=c if len(sql) < 300 else None)
            d = compare(base, view(sql2, "ansi"), mapping)
            if d is None:
                continue
            fid = classify(c, d)
            if fid and fid in ctx.active:
                res.known(fid, c)
            elif os.environ.get("VERIF_COLLECT"):
                res.known("UNLISTED skeleton | " + kind + " | " + d["what"] + " | " + ",".join(feats)[:90], c)
            elif len(res.violations) < 4:
                res.violation(kind, c, d)
    return res


# ------------------------------------------------------------------------------------------ text templates (forms the IR does not have)
LATERAL_TEMPLATES = [
    "INSERT INTO tgt SELECT {f}.id, {s}.total FROM foo {f}, LATERAL (SELECT sum(bar.amt) AS total FROM bar WHERE bar.foo_id = {f}.id) {s}",
    "INSERT INTO tgt SELECT {f}.id, {s}.total FROM foo AS {f} LEFT JOIN LATERAL (SELECT bar.amt AS total FROM bar WHERE bar.foo_id = {f}.id) AS {s} ON true",
    "CREATE TABLE tgt AS SELECT {s}.total, {u}.k FROM foo {f} CROSS JOIN LATERAL (SELECT bar.amt AS total FROM bar) {s}, LATERAL (SELECT baz.k FROM baz) AS {u}",
]
LATERAL_NAMES = [dict(f="f", s="ss", u="u"), dict(f="n1", s="n2", u="n3"), dict(f="ZqA", s="Zq_B", u="zQc"), dict(f="ss", s="f", u="x")]
# the dialects whose grammar reads LATERAL as a keyword in front of a derived table (elsewhere the alias of such a table is not registered at all:
# the K-lateral-subquery@C01 family, outside this stream)
LATERAL_DIALECTS = ["postgres", "snowflake", "duckdb", "oracle", "redshift"]


def _template_worker(payload):
    """aliased LATERAL derived tables (comma, LEFT JOIN, CROSS JOIN forms; with / without AS) under every renaming of their aliases"""
    shard, nshards, ctx = payload
    res = runner.Res()
    idx = 0
    for dialect in LATERAL_DIALECTS:
        for tpl in LATERAL_TEMPLATES:
            idx += 1
            if idx % nshards != shard:
                continue
            sql = tpl.format(**LATERAL_NAMES[0])
            if not rewrite.parses(sql, dialect):
                res.discard("template_rejected_by_dialect:" + dialect)
                continue
            base = view(sql, dialect)
            for names in LATERAL_NAMES[1:]:
                sql2 = tpl.format(**names)
                if not rewrite.parses(sql2, dialect):
                    res.discard("template_rejected_by_dialect:" + dialect)
                    continue
                mapping = {LATERAL_NAMES[0][k]: names[k] for k in names}
                c = {"original": sql, "rewritten": sql2, "dialect": dialect, "transformation": "rename(template)", "pool": "lateral", "mapping": mapping}
                res.case((sql, sql2, dialect), True, labels=["template", "template:lateral", "dialect:" + dialect], sample=c)
                d = compare(base, view(sql2, dialect), mapping)
                if d is not None and len(res.violations) < 3:
                    res.violation("metamorphic", c, d)
    return res


def replay(case):
    d = compare(view(case["original"], case["dialect"]), view(case["rewritten"], case["dialect"]), case.get("mapping"))
    return None if d is None else {"kind": "replay", "case": case, "detail": d}


def run(ctx):
    n = ctx.n(1600, 30000)
    res = runner.merge_all(runner.pmap(_worker, [(i, n // runner.NCPU, ctx) for i in range(runner.NCPU)]))
    nshards = runner.NCPU * 2
    res.merge(runner.merge_all(runner.pmap(_skeleton_worker, [(i, nshards, ctx) for i in range(nshards)])))
    res.merge(runner.merge_all(runner.pmap(_template_worker, [(i, runner.NCPU, ctx) for i in range(runner.NCPU)])))
    return res
