"""C10 - total error contract; silent mode skips unsupported statements.

Streams
  mutate : Hypothesis structure-aware mutation of corpus statements (token delete / duplicate / swap / insert from a
           dictionary of SQL, quoting and templating metacharacters / cross-over with another statement / truncation /
           bracket nesting), analysed under a drawn dialect out of all 29, every accessor exercised
  cross  : dialect-specific corpus statements under every other dialect
  reject : single-statement texts that sqlfluff's own parser rejects must surface as InvalidSyntaxException
  silent : scripts with a statement of an unsupported type (self-calibrated) inserted at every position, silent mode
Oracle   : outcome in {result, subclass of SQLLineageException}; anything else escapes and is bucketed by call site
           (exception type + innermost sqllineage frame: function + source line text).
"""
from __future__ import annotations

import linecache
import os
import re
import traceback
import warnings

from vlib import corpus, observe, runner

ID = "C10"
LEVEL = "exploration"
RULE = ("mutate: corpus statement x 1-6 token-level mutations (delete, duplicate, swap, dictionary insert incl. {{ {% ' \" ` [ ] $ @ -- /* NUL, "
        "cross-over, truncate, bracket nesting <= 30) x dialect out of 29; cross: corpus statement x foreign dialect; silent: 1-4 supported "
        "statements + 1 unsupported statement at each position. Non-trivial = the analysed text differs from every corpus text and is "
        "near-valid (<= 3 token edits from a corpus statement) or contains a templating/quoting metacharacter, or (silent) the script has "
        ">= 2 statements; distinct = distinct (text, dialect, mode).")
ASSUMPTIONS = [
    "escape = any exception that is not a subclass of sqllineage.exceptions.SQLLineageException, raised by LineageRunner evaluation or any result accessor",
    "known escapes are identified by call site (exception type + innermost sqllineage frame, by function name and source text, not line number)",
    "reject stream trusts sqlfluff's Linter.parse_string to decide that a text is unparsable",
    "silent mode is only defined for the sqlfluff analyzer (the legacy analyzer takes no such flag)",
]

TOK = re.compile(r"\s+|--[^\n]*|/\*.*?\*/|'[^']*'|\"[^\"]*\"|`[^`]*`|\w+|.", re.S)
EXTRA = ["(", ")", ",", ";", "'", '"', "`", "{{", "}}", "{%", "%}", "{#", "--", "/*", "*/", "select", "from", "join", "on", "union",
         "with", "as", "insert", "into", "*", ".", "::", "[", "]", "$", "@", "#", "\\", "\x00", "\n", "values", "(select 1)", "case",
         "when", "end", "over", "lateral", "merge", "using", "update", "set", "table", "=", "||", "0", "''", "${x}", ":p", "?", "%s",
         "swap_partitions_between_tables('a','b')", "swap_partitions_between_tables(", "exists", "not", "in", "like", "copy", "drop",
         "rename", "to", "alter", "create", "view", "overwrite", "directory", "partition", "by", "group", "having", "limit", "unnest(",
         "%", "'%'", "'100%'", "like 'a%'", "%(x)s", "%d", "{}", "{0}", "\\n", "'a''b'", "grant", "index", "comment on", "commit"]
META = set("{}'\"`[]$@#\\\x00") | {"{{", "{%"}


def all_dialects():
    from sqllineage.runner import LineageRunner

    out = []
    for v in LineageRunner.supported_dialects().values():
        out.extend(v)
    return sorted(set(out))


def site_of(exc):
    """innermost frame inside the sqllineage package: file:function:source line text.
    (the traceback chain is walked by hand: sqlfluff sets sys.tracebacklimit = 0 on one of its error paths, which
    would make traceback.extract_tb return nothing for the rest of the process)"""
    root = os.path.join(runner.REPO, "sqllineage") + os.sep
    tb = exc.__traceback__
    best = None
    while tb is not None:
        code = tb.tb_frame.f_code
        if code.co_filename.startswith(root):
            best = (code.co_filename, code.co_name, tb.tb_lineno)
        tb = tb.tb_next
    if best is None:
        return "?"
    line = linecache.getline(best[0], best[2]).strip()
    return f"{os.path.relpath(best[0], runner.REPO)}:{best[1]}:{line}"


def analyse(sql, dialect, silent=False):
    """returns dict(kind=ok|lib|escape, ...) after touching every accessor"""
    from sqllineage.exceptions import SQLLineageException
    from sqllineage.runner import LineageRunner

    try:
        with warnings.catch_warnings(record=True) as w:
            warnings.simplefilter("always")
            lr = LineageRunner(sql, dialect=dialect, silent_mode=silent)
            lr.statements()
            lr.source_tables, lr.target_tables, lr.intermediate_tables
            lr.get_column_lineage()
            lr.get_column_lineage(exclude_path_ending_in_subquery=False)
            lr.get_column_lineage(exclude_subquery_columns=True)
            lr.to_cytoscape()
            lr.to_cytoscape("column")
            str(lr)
        return {"kind": "ok", "warnings": [str(x.message)[:200] for x in w]}
    except SQLLineageException as e:
        return {"kind": "lib", "exc": type(e).__name__}
    except RecursionError as e:
        return {"kind": "escape", "exc": "RecursionError", "site": site_of(e), "msg": ""}
    except Exception as e:  # noqa
        return {"kind": "escape", "exc": type(e).__name__, "site": site_of(e), "msg": str(e)[:200]}


# known escape call sites: finding id -> predicate(outcome)
def classify(case, detail):
    if not isinstance(detail, dict) or detail.get("kind") != "escape":
        return None
    exc, site, msg = detail.get("exc"), detail.get("site", ""), detail.get("msg", "")
    for fid, pred in KNOWN_SITES.items():
        if pred(exc, site, msg, case):
            return fid
    return None


def _site(site, file, func):
    return site.startswith(file + ":" + func + ":")


KNOWN_SITES = {
    # exceptions raised inside sqlfluff itself (innermost sqllineage frame is the parse_string call)
    "K-sqlfluff-internal@C10": lambda exc, site, msg, case: exc in ("RuntimeError", "AssertionError")
    and _site(site, "sqllineage/core/parser/sqlfluff/analyzer.py", "_list_specific_statement_segment") and "parse_string" in site,
    "K-exasol-table-keyword@C10": lambda exc, site, msg, case: exc == "IndexError"
    and _site(site, "sqllineage/core/parser/sqlfluff/utils.py", "extract_as_and_target_segment"),
    # the deprecated sqlparse-based analyzer
    "K-sqlparse-swap-partition@C10": lambda exc, site, msg, case: case.get("dialect") == "non-validating"
    and exc in ("IndexError", "ValueError", "AttributeError", "TypeError")
    and _site(site, "sqllineage/core/parser/sqlparse/handlers/swap_partition.py", "handle"),
    "K-sqlparse-merge@C10": lambda exc, site, msg, case: case.get("dialect") == "non-validating"
    and exc in ("IndexError", "AttributeError", "TypeError")
    and _site(site, "sqllineage/core/parser/sqlparse/analyzer.py", "_extract_from_dml_merge"),
    "K-sqlparse-column-of@C10": lambda exc, site, msg, case: case.get("dialect") == "non-validating" and exc == "TypeError"
    and _site(site, "sqllineage/core/parser/sqlparse/models.py", "of"),
    "K-sqlparse-none-identifier@C10": lambda exc, site, msg, case: case.get("dialect") == "non-validating" and exc == "TypeError"
    and _site(site, "sqllineage/utils/helpers.py", "<genexpr>"),
}


def _mutate(toks, ops, others):
    toks = list(toks)
    if len(toks) > 320:
        toks = toks[:320]
    edits = 0
    for kind, a, b in ops:
        if not toks:
            toks = ["select"]
        i = a % len(toks)
        edits += 1
        if kind == 0:
            del toks[i]
        elif kind == 1:
            toks.insert(i, toks[i])
        elif kind == 2:
            j = b % len(toks)
            toks[i], toks[j] = toks[j], toks[i]
        elif kind == 3:
            toks.insert(i, EXTRA[b % len(EXTRA)])
        elif kind == 4:
            toks[i] = EXTRA[b % len(EXTRA)]
        elif kind == 5:
            other = others[b % len(others)]
            if other:
                s = a % len(other)
                toks[i:i] = other[s:s + 1 + (b % 11)]
            edits += 3
        elif kind == 6:
            toks = toks[:i]
            edits += 3
        elif kind == 7:
            depth = 1 + b % 30
            toks[i:i + 1] = ["("] * depth + [toks[i]] + [")"] * depth
        elif kind == 8:
            toks.insert(i, " ")
            toks.insert(i, EXTRA[b % len(EXTRA)])
            toks.insert(i, " ")
    return "".join(toks), edits


_state = {}


def _pool():
    if "pool" not in _state:
        entries = corpus.plain(include_tpcds=False)
        tp = [e for e in corpus.tpcds() if len(e["sql"]) < 2500]
        # statements of unsupported types take part in the mutation pool too (their error path formats the statement text)
        unsup = [{"sql": u, "dialect": d, "metadata": None} for u in UNSUPPORTED_CANDIDATES for d in ("ansi", "mysql", "postgres")]
        _state["pool"] = entries + tp + unsup
        _state["toks"] = [TOK.findall(e["sql"]) for e in _state["pool"]]
        _state["texts"] = {e["sql"] for e in _state["pool"]}
        _state["dialects"] = all_dialects()
    return _state


def mutate_strategy():
    from hypothesis import strategies as st

    s = _pool()
    n = len(s["pool"])
    op = st.tuples(st.integers(0, 8), st.integers(0, 10 ** 6), st.integers(0, 10 ** 6))
    nops = st.integers(0, 9).map(lambda k: 1 if k < 4 else 2 if k < 7 else 3 if k < 9 else 6)
    return st.tuples(st.integers(0, n - 1), st.integers(0, 99), st.integers(0, len(s["dialects"]) - 1),
                     nops.flatmap(lambda k: st.lists(op, min_size=k, max_size=k)))


def _judge_outcome(case, out, res, ctx):
    if out["kind"] != "escape":
        return None
    fid = classify(case, out)
    if fid and fid in ctx.active:
        res.known(fid, case)
        return None
    if os.environ.get("VERIF_COLLECT"):  # calibration aid: enumerate every bucket instead of stopping at the first
        res.known("UNLISTED " + out["exc"] + " @ " + out["site"], case)
        return None
    return {"kind": "escape:" + out["exc"], "case": case, "detail": out}


def _mutate_body(ctx):
    s = _pool()

    def body(case, res):
        idx, dsel, didx, ops = case
        entry = s["pool"][idx]
        dialect = entry["dialect"] if dsel < 35 else s["dialects"][didx]
        sql, edits = _mutate(s["toks"][idx], ops, s["toks"])
        has_meta = any(m in sql for m in ("{{", "{%", "{#", "'", '"', "`", "[", "$", "@", "\x00", "\\"))
        nt = sql not in s["texts"] and (edits <= 3 or has_meta)
        c = {"sql": sql, "dialect": dialect}
        out = analyse(sql, dialect)
        res.case(sql + "|" + dialect, nt, labels=["mutate", "outcome:" + out["kind"] + (":" + out["exc"] if "exc" in out else ""),
                                                  "dialect:" + dialect] + (["near_valid"] if edits <= 3 else []) + (["meta"] if has_meta else []),
                 sample=c)
        return _judge_outcome(c, out, res, ctx)

    return body


def _mutate_worker(payload):
    shard, n, ctx = payload
    res = runner.Res()
    runner.hyp_run(mutate_strategy(), _mutate_body(ctx), res, seed=runner.derive_seed(ctx.seed, "C10mut", shard), max_examples=n, ctx=ctx)
    return res


def _cross_worker(payload):
    items, ctx = payload
    res = runner.Res()
    s = _pool()
    for idx, dialect in items:
        if ctx.out_of_time():
            res.budget_exhausted = True
            break
        entry = s["pool"][idx]
        c = {"sql": entry["sql"], "dialect": dialect}
        out = analyse(entry["sql"], dialect)
        res.case(entry["sql"] + "|" + dialect, dialect != entry["dialect"],
                 labels=["cross", "outcome:" + out["kind"] + (":" + out["exc"] if "exc" in out else "")], sample=c)
        v = _judge_outcome(c, out, res, ctx)
        if v is not None and len(res.violations) < 5:
            res.violation(v["kind"], v["case"], v["detail"])
    return res


# ------------------------------------------------------------------------------------------ reject stream
def sqlfluff_rejects(sql, dialect):
    from sqlfluff.core import FluffConfig, Linter, SQLLexError, SQLParseError

    key = ("linter", dialect)
    if key not in _state:
        _state[key] = Linter(config=FluffConfig(overrides={"dialect": dialect}))
    parsed = _state[key].parse_string(sql)
    return any(isinstance(e, (SQLLexError, SQLParseError)) for e in parsed.violations)


def _reject_body(ctx):
    s = _pool()

    def body(case, res):
        idx, dsel, didx, ops = case
        entry = s["pool"][idx]
        dialect = entry["dialect"] if dsel < 50 else s["dialects"][didx]
        if dialect == "non-validating":
            dialect = "ansi"
        sql, edits = _mutate(s["toks"][idx], ops, s["toks"])
        sql = sql.strip()
        if ";" in sql or "{" in sql or not sql or "\x00" in sql:
            res.discard("reject:not_single_statement")
            return None
        try:
            rej = sqlfluff_rejects(sql, dialect)
        except Exception:  # noqa  the parser itself crashed: nothing to compare with
            res.discard("reject:parser_crashed")
            return None
        if not rej:
            res.case("R|" + sql + "|" + dialect, False, labels=["reject:accepted_by_parser"])
            return None
        from sqllineage.utils.helpers import split

        if len(split(sql)) != 1:
            res.discard("reject:splitter_sees_several")
            return None
        c = {"sql": sql, "dialect": dialect, "expect": "InvalidSyntaxException"}
        out = analyse(sql, dialect)
        res.case("R|" + sql + "|" + dialect, True, labels=["reject:rejected_by_parser"], sample=c)
        if out["kind"] == "lib" and out["exc"] == "InvalidSyntaxException":
            return None
        if out["kind"] == "escape":
            return _judge_outcome(c, out, res, ctx)
        return {"kind": "unparsable_not_reported", "case": c, "detail": out}

    return body


def _reject_worker(payload):
    shard, n, ctx = payload
    res = runner.Res()
    runner.hyp_run(mutate_strategy(), _reject_body(ctx), res, seed=runner.derive_seed(ctx.seed, "C10rej", shard), max_examples=n, ctx=ctx)
    return res


# ------------------------------------------------------------------------------------------ silent stream
UNSUPPORTED_CANDIDATES = [
    "GRANT SELECT ON tab1 TO 'usr1'@'%'", "CREATE INDEX idx1 ON tab1 (col1) WHERE col1 LIKE 'tmp%'", "COMMENT ON TABLE tab1 IS '100% done {ok}'",
    "GRANT ALL ON tab1 TO `u%s`", "CREATE INDEX idx2 ON tab1 (col1) WHERE col1 = '{0}'",
    "CREATE INDEX idx1 ON tab1 (col1)", "GRANT SELECT ON tab1 TO usr1", "COMMIT", "ROLLBACK", "CREATE SCHEMA sch1",
    "DROP INDEX idx1", "CREATE SEQUENCE seq1", "EXPLAIN SELECT 1", "CREATE DATABASE db1", "DROP SCHEMA sch1",
    "CREATE ROLE r1", "DROP DATABASE db1", "REVOKE SELECT ON tab1 FROM usr1", "BEGIN", "CREATE USER u1",
]
SILENT_DIALECTS = ["ansi", "postgres", "mysql", "sparksql", "snowflake", "tsql", "bigquery"]
SUPPORTED_POOL = [
    "INSERT INTO t1 SELECT a, b FROM s1", "CREATE TABLE t2 AS SELECT x.a, y.b FROM s1 x JOIN s2 y ON x.k = y.k",
    "SELECT * FROM s3 WHERE c IN (SELECT c FROM s4)", "INSERT INTO t3 SELECT a FROM t1 UNION ALL SELECT a FROM t2",
    "CREATE VIEW v1 AS SELECT max(a) AS m FROM t3", "INSERT INTO t4 (c1, c2) SELECT a, b FROM t1",
    "WITH q AS (SELECT a FROM s5) INSERT INTO t5 SELECT a FROM q", "DROP TABLE t9", "INSERT INTO t6 VALUES (1, 2)",
    "UPDATE t7 SET a = 1 WHERE b = 2", "DELETE FROM t8 WHERE a = 1", "INSERT INTO t1 SELECT * FROM t6",
]


def calibrate_unsupported(dialect):
    """candidates that raise UnsupportedStatementException in strict mode under this dialect on this tree"""
    key = ("unsup", dialect)
    if key not in _state:
        ok = []
        for u in UNSUPPORTED_CANDIDATES:
            out = analyse(u, dialect)
            if out["kind"] == "lib" and out["exc"] == "UnsupportedStatementException":
                ok.append(u)
        _state[key] = ok
    return _state[key]


def silent_strategy():
    from hypothesis import strategies as st

    return st.tuples(st.sampled_from(SILENT_DIALECTS), st.lists(st.integers(0, len(SUPPORTED_POOL) - 1), min_size=1, max_size=4),
                     st.integers(0, 4), st.integers(0, 99), st.integers(0, 2))


def check_silent(case):
    """case: dict(dialect, stmts, pos, unsupported, sep) -> None | detail"""
    dialect, stmts, pos, u = case["dialect"], case["stmts"], case["pos"], case["unsupported"]
    sep = case.get("sep", ";\n")
    with_u = stmts[:pos] + [u] + stmts[pos:]
    sql_with = sep.join(with_u) + ";"
    sql_without = sep.join(stmts) + ";"
    base = observe.dump(sql_without, dialect, silent=True)
    if "EXC" in base:
        return "skip"  # the supported pool statement is not accepted by this dialect: not a silent-mode question
    from sqllineage.runner import LineageRunner

    with warnings.catch_warnings(record=True) as w:
        warnings.simplefilter("always")
        got = observe.dump(sql_with, dialect, silent=True)
    if "EXC" in got:
        return {"what": "silent mode raised for a script with an unsupported statement", "got": got, "sql": sql_with}
    msgs = [str(x.message) for x in w]
    for k in ("S", "T", "I", "C", "Cfull", "cyT", "cyC"):
        if got[k] != base[k]:
            return {"what": f"silent-mode result differs from the script without the statement ({k})", "with": got[k],
                    "without": base[k], "sql": sql_with}
    if got["n"] != base["n"] + 1:
        return {"what": "statement count", "with": got["n"], "without": base["n"], "sql": sql_with}
    if not any("support" in m.lower() for m in msgs):
        return {"what": "unsupported statement skipped without a warning", "warnings": msgs[:3], "sql": sql_with}
    return None


def _silent_body(ctx):
    def body(case, res):
        dialect, idxs, pos, usel, sepsel = case
        cands = calibrate_unsupported(dialect)
        if len(cands) < 2:
            res.discard("silent:no_unsupported_candidates:" + dialect)
            return None
        stmts = [SUPPORTED_POOL[i] for i in idxs]
        pos = pos % (len(stmts) + 1)
        c = {"silent": True, "dialect": dialect, "stmts": stmts, "pos": pos, "unsupported": cands[usel % len(cands)],
             "sep": [";\n", "; ", ";\n\n-- c;\n"][sepsel]}
        d = check_silent(c)
        if d == "skip":
            res.discard("silent:base_not_accepted")
            return None
        res.case(("silent", dialect, tuple(stmts), pos, c["unsupported"], sepsel), len(stmts) >= 1,
                 labels=["silent", "silent:pos=" + ("first" if pos == 0 else "last" if pos == len(stmts) else "middle")], sample=c)
        if d is None:
            return None
        return {"kind": "silent", "case": c, "detail": d}

    return body


def _silent_worker(payload):
    shard, n, ctx = payload
    res = runner.Res()
    runner.hyp_run(silent_strategy(), _silent_body(ctx), res, seed=runner.derive_seed(ctx.seed, "C10silent", shard), max_examples=n, ctx=ctx)
    return res


# ------------------------------------------------------------------------------------------ entry points
def replay(case):
    if case.get("silent"):
        d = check_silent(case)
        return None if d in (None, "skip") else {"kind": "silent", "case": case, "detail": d}
    out = analyse(case["sql"], case["dialect"])
    if case.get("expect") == "InvalidSyntaxException":
        if out["kind"] == "lib" and out["exc"] == "InvalidSyntaxException":
            return None
        return {"kind": "unparsable_not_reported", "case": case, "detail": out}
    if out["kind"] == "escape":
        return {"kind": "escape:" + out["exc"], "case": case, "detail": out}
    return None


def run(ctx):
    s = _pool()
    n = ctx.n(14000, 400000)
    res = runner.merge_all(runner.pmap(_mutate_worker, [(i, n // runner.NCPU, ctx) for i in range(runner.NCPU)]))
    # cross-dialect: corpus statements under foreign dialects (quick: seeded stride sample)
    items = [(i, d) for i in range(len(s["pool"])) for d in s["dialects"] if d != s["pool"][i]["dialect"]]
    stride = 9 if ctx.quick else 1
    items = items[(ctx.seed % stride):: stride]
    chunks = runner.NCPU * 4
    res.merge(runner.merge_all(runner.pmap(_cross_worker, [(items[c::chunks], ctx) for c in range(chunks)])))
    n2 = ctx.n(2400, 40000)
    res.merge(runner.merge_all(runner.pmap(_reject_worker, [(i, n2 // runner.NCPU, ctx) for i in range(runner.NCPU)])))
    n3 = ctx.n(640, 12000)
    calib = {d: len(calibrate_unsupported(d)) for d in SILENT_DIALECTS}  # in the parent: workers inherit it through fork
    res.merge(runner.merge_all(runner.pmap(_silent_worker, [(i, n3 // runner.NCPU, ctx) for i in range(runner.NCPU)])))
    res.extra["dialects"] = len(s["dialects"])
    res.extra["unsupported_statements_calibrated"] = calib
    return res
