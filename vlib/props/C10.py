"""C10 - total error contract; silent mode skips unsupported statements.

Streams
  mutate : Hypothesis structure-aware mutation of corpus statements (token delete / duplicate / swap / insert from a
           dictionary of SQL, quoting and templating metacharacters / cross-over with another statement / truncation /
           bracket nesting), analysed under a drawn dialect out of all 29, every accessor exercised
  cross  : dialect-specific corpus statements under every other dialect
  reject : single-statement texts that sqlfluff's own parser rejects must surface as InvalidSyntaxException
  silent : scripts with a statement of an unsupported type (self-calibrated) inserted at every position, silent mode
Oracle   : outcome in {result, subclass of SQLLineageException}; anything else escapes and is bucketed by call site
           (exception type + innermost sqllineage frame: function + source line text).
"""
from __future__ import annotations

import linecache
import os
import re
import traceback
import warnings

from vlib import corpus, observe, runner

ID = "C10"
LEVEL = "exploration"
RULE = ("mutate: corpus statement x 1-6 token-level mutations (delete, duplicate, swap, dictionary insert incl. {{ {% ' \" ` [ ] $ @ -- /* NUL, "
        "cross-over, truncate, bracket nesting <= 30) x dialect out of 29; cross: corpus statement x foreign dialect; silent: 1-4 supported "
        "statements + 1 unsupported statement at each position. Non-trivial = the analysed text differs from every corpus text and is "
        "near-valid (<= 3 token edits from a corpus statement) or contains a templating/quoting metacharacter, or (silent) the script has "
        ">= 2 statements; distinct = distinct (text, dialect, mode).")
ASSUMPTIONS = [
    "escape = any exception that is not a subclass of sqllineage.exceptions.SQLLineageException, raised by LineageRunner evaluation or any result accessor",
    "known escapes are identified by call site (exception type + innermost sqllineage frame, by function name and source text, not line number)",
    "reject stream trusts sqlfluff's Linter.parse_string to decide that a text is unparsable",
    "silent mode is only defined for the sqlfluff analyzer (the legacy analyzer takes no such flag)",
]

TOK = re.compile(r"\s+|--[^\n]*|/\*.*?\*/|'[^']*'|\"[^\"]*\"|`[^`]*`|\w+|.", re.S)
EXTRA = ["(", ")", ",", ";", "'", '"', "`", "{{", "}}", "{%", "%}", "{#", "--", "/*", "*/", "select", "from", "join", "on", "union",
         "with", "as", "insert", "into", "*", ".", "::", "[", "]", "$", "@", "#", "\\", "\x00", "\n", "values", "(select 1)", "case",
         "when", "end", "over", "lateral", "merge", "using", "update", "set", "table", "=", "||", "0", "''", "${x}", ":p", "?", "%s",
         "swap_partitions_between_tables('a','b')", "swap_partitions_between_tables(", "exists", "not", "in", "like", "copy", "drop",
         "rename", "to", "alter", "create", "view", "overwrite", "directory", "partition", "by", "group", "having", "limit", "unnest(",
         "%", "'%'", "'100%'", "like 'a%'", "%(x)s", "%d", "{}", "{0}", "\\n", "'a''b'", "grant", "index", "comment on", "commit"]
META = set("{}'\"`[]$@#\\\x00") | {"{{", "{%"}


def all_dialects():
    from sqllineage.runner import LineageRunner

    out = []
    for v in LineageRunner.supported_dialects().values():
        out.extend(v)
    return sorted(set(out))


def site_of(exc):
    """innermost frame inside the sqllineage package: file:function:source line text.
    (the traceback chain is walked by hand: sqlfluff sets sys.tracebacklimit = 0 on one of its error paths, which
    would make traceback.extract_tb return nothing for the rest of the process)"""
    root = os.path.join(runner.REPO, "sqllineage") + os.sep
    tb = exc.__traceback__
    best = None
    while tb is not None:
        code = tb.tb_frame.f_code
        if code.co_filename.startswith(root):
            best = (code.co_filename, code.co_name, tb.tb_lineno)
        tb = tb.tb_next
    if best is None:
        return "?"
    line = linecache.getline(best[0], best[2]).strip()
    return f"{os.path.relpath(best[0], runner.REPO)}:{best[1]}:{line}"


def analyse(sql, dialect, silent=False):
    """returns dict(kind=ok|lib|escape, ...) after touching every accessor"""
    from sqllineage.exceptions import SQLLineageException
    from sqllineage.runner import LineageRunner

    try:
        with warnings.catch_warnings(record=True) as w:
            warnings.simplefilter("always")
            lr = LineageRunner(sql, dialect=dialect, silent_mode=silent)
            lr.statements()
            lr.source_tables, lr.target_tables, lr.intermediate_tables
            lr.get_column_lineage()
            lr.get_column_lineage(exclude_path_ending_in_subquery=False)
            lr.get_column_lineage(exclude_subquery_columns=True)
            lr.to_cytoscape()
            lr.to_cytoscape("column")
            str(lr)
        return {"kind": "ok", "warnings": [str(x.message)[:200] for x in w]}
    except SQLLineageException as e:
        # the contract holds for every call, not only the first: the other accessors of the same runner must not escape either
        # (a failed evaluation is repeated by every accessor, so this multiplies the cost: a deterministic sixth of the failing inputs)
        import zlib

        again = (("target_tables", lambda: lr.target_tables), ("str", lambda: str(lr)), ("get_column_lineage", lambda: lr.get_column_lineage()))
        for name, call in again if zlib.crc32(sql.encode("utf-8", "replace")) % 6 == 0 else ():
            try:
                call()
            except SQLLineageException:
                pass
            except Exception as e2:  # noqa
                return {"kind": "escape", "exc": type(e2).__name__, "site": site_of(e2), "msg": f"accessor {name} after {type(e).__name__}: " + str(e2)[:160]}
        return {"kind": "lib", "exc": type(e).__name__}
    except RecursionError as e:
        return {"kind": "escape", "exc": "RecursionError", "site": site_of(e), "msg": ""}
    except Exception as e:  # noqa
        return {"kind": "escape", "exc": type(e).__name__, "site": site_of(e), "msg": str(e)[:200]}


# known escape call sites: finding id -> predicate(outcome)
def classify(case, detail):
    if not isinstance(detail, dict) or detail.get("kind") != "escape":
        return None
    exc, site, msg = detail.get("exc"), detail.get("site", ""), detail.get("msg", "")
    for fid, pred in KNOWN_SITES.items():
        if pred(exc, site, msg, case):
            return fid
    return None


def _site(site, file, func):
    return site.startswith(file + ":" + func + ":")


KNOWN_SITES = {
    # exceptions raised inside sqlfluff itself (innermost sqllineage frame is the parse_string call)
    "K-sqlfluff-internal@C10": lambda exc, site, msg, case: exc in ("RuntimeError", "AssertionError", "ZeroDivisionError")
    and _site(site, "sqllineage/core/parser/sqlfluff/analyzer.py", "_list_specific_statement_segment") and "parse_string" in site,
    "K-exasol-table-keyword@C10": lambda exc, site, msg, case: exc == "IndexError"
    and _site(site, "sqllineage/core/parser/sqlfluff/utils.py", "extract_as_and_target_segment"),
    # the deprecated sqlparse-based analyzer
    "K-sqlparse-merge@C10": lambda exc, site, msg, case: case.get("dialect") == "non-validating"
    and exc in ("IndexError", "AttributeError", "TypeError")
    and _site(site, "sqllineage/core/parser/sqlparse/analyzer.py", "_extract_from_dml_merge"),
    "K-sqlparse-column-of@C10": lambda exc, site, msg, case: case.get("dialect") == "non-validating" and exc == "TypeError"
    and _site(site, "sqllineage/core/parser/sqlparse/models.py", "of"),
    "K-sqlparse-none-identifier@C10": lambda exc, site, msg, case: case.get("dialect") == "non-validating" and exc == "TypeError"
    and (_site(site, "sqllineage/utils/helpers.py", "<genexpr>") or (_site(site, "sqllineage/core/models.py", "__init__") and "NoneType" in msg)),
}


def _mutate(toks, ops, others):
    toks = list(toks)
    if len(toks) > 320:
        toks = toks[:320]
    edits = 0
    for kind, a, b in ops:
        if not toks:
            toks = ["select"]
        i = a % len(toks)
        edits += 1
        if kind == 0:
            del toks[i]
        elif kind == 1:
            toks.insert(i, toks[i])
        elif kind == 2:
            j = b % len(toks)
            toks[i], toks[j] = toks[j], toks[i]
        elif kind == 3:
            toks.insert(i, EXTRA[b % len(EXTRA)])
        elif kind == 4:
            toks[i] = EXTRA[b % len(EXTRA)]
        elif kind == 5:
            other = others[b % len(others)]
            if other:
                s = a % len(other)
                toks[i:i] = other[s:s + 1 + (b % 11)]
            edits += 3
        elif kind == 6:
            toks = toks[:i]
            edits += 3
        elif kind == 7:
            depth = 1 + b % 30
            toks[i:i + 1] = ["("] * depth + [toks[i]] + [")"] * depth
        elif kind == 8:
            toks.insert(i, " ")
            toks.insert(i, EXTRA[b % len(EXTRA)])
            toks.insert(i, " ")
    return "".join(toks), edits


_state = {}


def _pool():
    if "pool" not in _state:
        entries = corpus.plain(include_tpcds=False)
        tp = [e for e in corpus.tpcds() if len(e["sql"]) < 2500]
        # statements of unsupported types take part in the mutation pool too (their error path formats the statement text)
        unsup = [{"sql": u, "dialect": d, "metadata": None} for u in UNSUPPORTED_CANDIDATES for d in ("ansi", "mysql", "postgres")]
        zoo = [{"sql": z, "dialect": d, "metadata": None} for d, z in ZOO]
        _state["pool"] = entries + tp + unsup + zoo
        _state["toks"] = [TOK.findall(e["sql"]) for e in _state["pool"]]
        _state["texts"] = {e["sql"] for e in _state["pool"]}
        _state["dialects"] = all_dialects()
    return _state


def mutate_strategy():
    from hypothesis import strategies as st

    s = _pool()
    n = len(s["pool"])
    op = st.tuples(st.integers(0, 8), st.integers(0, 10 ** 6), st.integers(0, 10 ** 6))
    nops = st.integers(0, 9).map(lambda k: 1 if k < 4 else 2 if k < 7 else 3 if k < 9 else 6)
    return st.tuples(st.integers(0, n - 1), st.integers(0, 99), st.integers(0, len(s["dialects"]) - 1),
                     nops.flatmap(lambda k: st.lists(op, min_size=k, max_size=k)))


def _judge_outcome(case, out, res, ctx):
    if out["kind"] != "escape":
        return None
    fid = classify(case, out)
    if fid and fid in ctx.active:
        res.known(fid, case)
        return None
    if os.environ.get("VERIF_COLLECT"):  # calibration aid: enumerate every bucket instead of stopping at the first
        res.known("UNLISTED " + out["exc"] + " @ " + out["site"], case)
        return None
    return {"kind": "escape:" + out["exc"], "case": case, "detail": out}


def _mutate_body(ctx):
    s = _pool()

    def body(case, res):
        idx, dsel, didx, ops = case
        entry = s["pool"][idx]
        dialect = entry["dialect"] if dsel < 35 else s["dialects"][didx]
        sql, edits = _mutate(s["toks"][idx], ops, s["toks"])
        has_meta = any(m in sql for m in ("{{", "{%", "{#", "'", '"', "`", "[", "$", "@", "\x00", "\\"))
        nt = sql not in s["texts"] and (edits <= 3 or has_meta)
        c = {"sql": sql, "dialect": dialect}
        out = analyse(sql, dialect)
        res.case(sql + "|" + dialect, nt, labels=["mutate", "outcome:" + out["kind"] + (":" + out["exc"] if "exc" in out else ""),
                                                  "dialect:" + dialect] + (["near_valid"] if edits <= 3 else []) + (["meta"] if has_meta else []),
                 sample=c)
        return _judge_outcome(c, out, res, ctx)

    return body


def _mutate_worker(payload):
    shard, n, ctx = payload
    res = runner.Res()
    runner.hyp_run(mutate_strategy(), _mutate_body(ctx), res, seed=runner.derive_seed(ctx.seed, "C10mut", shard), max_examples=n, ctx=ctx)
    return res


def _cross_worker(payload):
    items, ctx = payload
    res = runner.Res()
    s = _pool()
    for idx, dialect in items:
        if ctx.out_of_time():
            res.budget_exhausted = True
            break
        entry = s["pool"][idx]
        c = {"sql": entry["sql"], "dialect": dialect}
        out = analyse(entry["sql"], dialect)
        res.case(entry["sql"] + "|" + dialect, dialect != entry["dialect"],
                 labels=["cross", "outcome:" + out["kind"] + (":" + out["exc"] if "exc" in out else "")], sample=c)
        v = _judge_outcome(c, out, res, ctx)
        if v is not None and len(res.violations) < 5:
            res.violation(v["kind"], v["case"], v["detail"])
    return res


# ------------------------------------------------------------------------------------------ reject stream
def sqlfluff_rejects(sql, dialect):
    from sqlfluff.core import FluffConfig, Linter, SQLLexError, SQLParseError

    key = ("linter", dialect)
    if key not in _state:
        _state[key] = Linter(config=FluffConfig(overrides={"dialect": dialect}))
    parsed = _state[key].parse_string(sql)
    return any(isinstance(e, (SQLLexError, SQLParseError)) for e in parsed.violations)


def _reject_body(ctx):
    s = _pool()

    def body(case, res):
        idx, dsel, didx, ops = case
        entry = s["pool"][idx]
        dialect = entry["dialect"] if dsel < 50 else s["dialects"][didx]
        if dialect == "non-validating":
            dialect = "ansi"
        sql, edits = _mutate(s["toks"][idx], ops, s["toks"])
        sql = sql.strip()
        if ";" in sql or "{" in sql or not sql or "\x00" in sql:
            res.discard("reject:not_single_statement")
            return None
        try:
            rej = sqlfluff_rejects(sql, dialect)
        except Exception:  # noqa  the parser itself crashed: nothing to compare with
            res.discard("reject:parser_crashed")
            return None
        if not rej:
            res.case("R|" + sql + "|" + dialect, False, labels=["reject:accepted_by_parser"])
            return None
        from sqllineage.utils.helpers import split

        if len(split(sql)) != 1:
            res.discard("reject:splitter_sees_several")
            return None
        c = {"sql": sql, "dialect": dialect, "expect": "InvalidSyntaxException"}
        out = analyse(sql, dialect)
        res.case("R|" + sql + "|" + dialect, True, labels=["reject:rejected_by_parser"], sample=c)
        if out["kind"] == "lib" and out["exc"] == "InvalidSyntaxException":
            return None
        if out["kind"] == "escape":
            return _judge_outcome(c, out, res, ctx)
        return {"kind": "unparsable_not_reported", "case": c, "detail": out}

    return body


def _reject_worker(payload):
    shard, n, ctx = payload
    res = runner.Res()
    runner.hyp_run(mutate_strategy(), _reject_body(ctx), res, seed=runner.derive_seed(ctx.seed, "C10rej", shard), max_examples=n, ctx=ctx)
    return res


# ------------------------------------------------------------------------------------------ silent stream
UNSUPPORTED_CANDIDATES = [
    "GRANT SELECT ON tab1 TO 'usr1'@'%'", "CREATE INDEX idx1 ON tab1 (col1) WHERE col1 LIKE 'tmp%'", "COMMENT ON TABLE tab1 IS '100% done {ok}'",
    "GRANT ALL ON tab1 TO `u%s`", "CREATE INDEX idx2 ON tab1 (col1) WHERE col1 = '{0}'",
    "CREATE INDEX idx1 ON tab1 (col1)", "GRANT SELECT ON tab1 TO usr1", "COMMIT", "ROLLBACK", "CREATE SCHEMA sch1",
    "DROP INDEX idx1", "CREATE SEQUENCE seq1", "EXPLAIN SELECT 1", "CREATE DATABASE db1", "DROP SCHEMA sch1",
    "CREATE ROLE r1", "DROP DATABASE db1", "REVOKE SELECT ON tab1 FROM usr1", "BEGIN", "CREATE USER u1",
]
# dialect-specific statement forms (clauses between the verb and the target, multi-target inserts, upserts, returning / output clauses, load / unload,
# table functions ...): every one is analysed under EVERY dialect in every run, and all of them take part in the mutation pool
ZOO = [
    ("tsql", "INSERT TOP (5) INTO t (a, b) SELECT a, b FROM s"), ("tsql", "INSERT TOP (10) PERCENT INTO dbo.t SELECT a FROM s"),
    ("tsql", "WITH q AS (SELECT a FROM s) INSERT TOP (1) INTO t SELECT a FROM q"), ("tsql", "INSERT INTO t WITH (TABLOCK) (a, b) SELECT a, b FROM s"),
    ("tsql", "INSERT INTO t (a) OUTPUT inserted.a INTO audit (a) SELECT a FROM s"), ("tsql", "SELECT a, b INTO #tmp FROM s WITH (NOLOCK)"),
    ("tsql", "UPDATE t SET a = s.a OUTPUT deleted.a INTO audit FROM t JOIN s ON t.k = s.k"), ("tsql", "SELECT t.a, x.b FROM t CROSS APPLY (SELECT b FROM s WHERE s.k = t.k) x"),
    ("tsql", "MERGE INTO t USING s ON t.k = s.k WHEN MATCHED THEN UPDATE SET a = s.a WHEN NOT MATCHED BY SOURCE THEN DELETE OUTPUT $action, inserted.a;"),
    ("tsql", "DELETE TOP (5) FROM t OUTPUT deleted.a INTO audit WHERE a IN (SELECT a FROM s)"), ("tsql", "INSERT INTO t EXEC dbo.proc1 @p = 1"),
    ("tsql", "SELECT a FROM OPENROWSET(BULK 'x.csv', FORMAT = 'CSV') AS r"), ("tsql", "DECLARE @n INT = 5; INSERT TOP (@n) INTO t SELECT a FROM s"),
    ("postgres", "INSERT INTO t (a, b) SELECT a, b FROM s ON CONFLICT (a) DO UPDATE SET b = EXCLUDED.b"), ("postgres", "INSERT INTO t SELECT a FROM s RETURNING a"),
    ("postgres", "WITH moved AS (DELETE FROM s WHERE a < 5 RETURNING *) INSERT INTO t SELECT * FROM moved"), ("postgres", "UPDATE t SET a = s.a FROM s WHERE t.k = s.k RETURNING t.*"),
    ("postgres", "CREATE TABLE t PARTITION OF p FOR VALUES FROM (1) TO (10)"), ("postgres", "COPY (SELECT a FROM s) TO '/tmp/out.csv' WITH CSV"),
    ("postgres", "CREATE TABLE t (LIKE s INCLUDING ALL)"), ("postgres", "SELECT a INTO TEMP t FROM s"), ("postgres", "INSERT INTO t TABLE s"),
    ("postgres", "CREATE MATERIALIZED VIEW mv AS SELECT a FROM s WITH NO DATA"), ("postgres", "REFRESH MATERIALIZED VIEW mv"),
    ("postgres", "SELECT * FROM s, LATERAL unnest(s.arr) AS u(x)"), ("postgres", "INSERT INTO t SELECT DISTINCT ON (a) a, b FROM s ORDER BY a, b"),
    ("mysql", "INSERT INTO t (a, b) SELECT a, b FROM s ON DUPLICATE KEY UPDATE b = VALUES(b)"), ("mysql", "REPLACE INTO t SELECT a FROM s"),
    ("mysql", "INSERT INTO t SET a = 1, b = 2"), ("mysql", "INSERT IGNORE INTO t SELECT a FROM s"), ("mysql", "UPDATE t, s SET t.a = s.a WHERE t.k = s.k"),
    ("mysql", "DELETE t FROM t JOIN s ON t.k = s.k"), ("mysql", "LOAD DATA INFILE '/tmp/x.csv' INTO TABLE t"), ("mysql", "CREATE TABLE t LIKE s"),
    ("mysql", "INSERT INTO t SELECT a FROM s PARTITION (p0)"), ("mysql", "SELECT a FROM s INTO OUTFILE '/tmp/o.txt'"),
    ("snowflake", "INSERT ALL INTO t1 INTO t2 SELECT a FROM s"), ("snowflake", "INSERT OVERWRITE INTO t SELECT a FROM s"),
    ("snowflake", "INSERT ALL WHEN a > 1 THEN INTO t1 ELSE INTO t2 SELECT a FROM s"), ("snowflake", "COPY INTO @stage1/out FROM (SELECT a FROM s)"),
    ("snowflake", "CREATE TABLE t CLONE s AT (OFFSET => -60)"), ("snowflake", "CREATE OR REPLACE TABLE t AS SELECT a FROM s SAMPLE (10)"),
    ("snowflake", "SELECT a FROM s, LATERAL FLATTEN(input => s.arr) f"), ("snowflake", "CREATE TABLE t AS SELECT $1, $2 FROM @stage1 (FILE_FORMAT => 'ff')"),
    ("snowflake", "MERGE INTO t USING (SELECT a, k FROM s) q ON t.k = q.k WHEN MATCHED AND q.a > 1 THEN DELETE WHEN NOT MATCHED THEN INSERT (k) VALUES (q.k)"),
    ("snowflake", "CREATE DYNAMIC TABLE t TARGET_LAG = '1 minute' WAREHOUSE = wh AS SELECT a FROM s"), ("snowflake", "SELECT a FROM s QUALIFY row_number() OVER (ORDER BY a) = 1"),
    ("snowflake", "CREATE STREAM st ON TABLE s"), ("snowflake", "SELECT * FROM TABLE(RESULT_SCAN(LAST_QUERY_ID()))"), ("snowflake", "SELECT * FROM s PIVOT (sum(a) FOR b IN ('x', 'y')) p"),
    ("bigquery", "CREATE TABLE d.t PARTITION BY dt CLUSTER BY a AS SELECT a, dt FROM d.s"), ("bigquery", "INSERT d.t (a) SELECT a FROM d.s"),
    ("bigquery", "MERGE d.t USING d.s ON d.t.k = d.s.k WHEN NOT MATCHED BY SOURCE THEN DELETE WHEN NOT MATCHED THEN INSERT ROW"),
    ("bigquery", "EXPORT DATA OPTIONS (uri = 'gs://b/x*.csv', format = 'CSV') AS SELECT a FROM d.s"), ("bigquery", "SELECT a FROM d.s, UNNEST(arr) AS x"),
    ("bigquery", "CREATE OR REPLACE TABLE d.t AS SELECT * EXCEPT (b) FROM d.s"), ("bigquery", "SELECT a FROM `p.d.s*` WHERE _TABLE_SUFFIX = '2020'"),
    ("bigquery", "CREATE TABLE d.t COPY d.s"), ("bigquery", "CREATE SNAPSHOT TABLE d.t CLONE d.s"), ("bigquery", "INSERT INTO d.t SELECT AS STRUCT a, b FROM d.s"),
    ("bigquery", "DECLARE x INT64 DEFAULT 1; INSERT INTO d.t SELECT a FROM d.s WHERE a = x"), ("bigquery", "SELECT a FROM d.s FOR SYSTEM_TIME AS OF TIMESTAMP_SUB(CURRENT_TIMESTAMP(), INTERVAL 1 HOUR)"),
    ("sparksql", "INSERT OVERWRITE TABLE t PARTITION (ds = '1') SELECT a FROM s"), ("sparksql", "INSERT INTO t PARTITION (ds) SELECT a, ds FROM s"),
    ("hive", "FROM s INSERT OVERWRITE TABLE t1 SELECT a WHERE a > 1 INSERT INTO TABLE t2 SELECT b"), ("sparksql", "CACHE TABLE c AS SELECT a FROM s"),
    ("sparksql", "CREATE TABLE t USING delta PARTITIONED BY (a) AS SELECT a FROM s"), ("hive", "LOAD DATA INPATH '/x/y' OVERWRITE INTO TABLE t PARTITION (ds = '1')"),
    ("sparksql", "INSERT INTO t REPLACE WHERE a > 1 SELECT a FROM s"), ("sparksql", "CREATE TEMPORARY VIEW v USING parquet OPTIONS (path '/x/y')"),
    ("hive", "INSERT OVERWRITE DIRECTORY '/tmp/o' ROW FORMAT DELIMITED FIELDS TERMINATED BY ',' SELECT a FROM s"), ("sparksql", "SELECT /*+ BROADCAST(s) */ t.a FROM t JOIN s ON t.k = s.k"),
    ("sparksql", "SELECT a FROM s LATERAL VIEW explode(arr) e AS x"), ("sparksql", "SELECT * FROM s TABLESAMPLE (10 PERCENT)"), ("sparksql", "CREATE TABLE t LIKE s USING parquet"),
    ("sparksql", "MERGE INTO t USING s ON t.k = s.k WHEN MATCHED THEN UPDATE SET * WHEN NOT MATCHED THEN INSERT *"), ("hive", "ALTER TABLE t ADD PARTITION (ds = '1') LOCATION '/x/y'"),
    ("databricks", "COPY INTO t FROM (SELECT a FROM 's3://b/p') FILEFORMAT = PARQUET"), ("databricks", "CREATE OR REFRESH STREAMING TABLE t AS SELECT a FROM STREAM(s)"),
    ("databricks", "OPTIMIZE t ZORDER BY (a)"), ("databricks", "CREATE TABLE t SHALLOW CLONE s"), ("databricks", "SELECT * FROM STREAM s"),
    ("oracle", "INSERT ALL INTO t1 (a) VALUES (a) INTO t2 (a) VALUES (a) SELECT a FROM s"), ("oracle", "MERGE INTO t USING s ON (t.k = s.k) WHEN MATCHED THEN UPDATE SET t.a = s.a WHERE s.a > 1 DELETE WHERE t.a < 0"),
    ("oracle", "CREATE TABLE t PARALLEL 4 NOLOGGING AS SELECT a FROM s"), ("oracle", "INSERT /*+ APPEND */ INTO t SELECT a FROM s"), ("oracle", "SELECT a FROM s START WITH a = 1 CONNECT BY PRIOR a = b"),
    ("oracle", "SELECT a FROM s@dblink1"), ("oracle", "UPDATE (SELECT t.a, s.a AS sa FROM t JOIN s ON t.k = s.k) SET a = sa"),
    ("redshift", "UNLOAD ('SELECT a FROM s') TO 's3://b/p' IAM_ROLE 'arn:aws:iam::1:role/r'"), ("redshift", "COPY t (a, b) FROM 's3://b/p' IAM_ROLE 'arn:aws:iam::1:role/r' CSV GZIP"),
    ("redshift", "CREATE TABLE t DISTKEY (a) SORTKEY (b) AS SELECT a, b FROM s"), ("redshift", "CREATE TEMP TABLE t (LIKE s)"), ("redshift", "SELECT a INTO #t FROM s"),
    ("redshift", "INSERT INTO t (SELECT a FROM s)"), ("redshift", "CREATE EXTERNAL TABLE sp.t (a int) STORED AS PARQUET LOCATION 's3://b/p'"),
    ("clickhouse", "INSERT INTO t SELECT a FROM s FORMAT TabSeparated"), ("clickhouse", "CREATE MATERIALIZED VIEW mv TO t AS SELECT a FROM s"),
    ("clickhouse", "INSERT INTO FUNCTION remote('h', db.t) SELECT a FROM s"), ("clickhouse", "CREATE TABLE t ENGINE = MergeTree ORDER BY a AS SELECT a FROM s"),
    ("clickhouse", "SELECT a FROM s ARRAY JOIN arr AS x"), ("clickhouse", "SELECT a FROM s FINAL PREWHERE a > 1"), ("clickhouse", "INSERT INTO t SELECT * FROM file('x.csv')"),
    ("duckdb", "CREATE OR REPLACE TABLE t AS FROM s SELECT a"), ("duckdb", "COPY (SELECT a FROM s) TO 'o.parquet' (FORMAT PARQUET)"), ("duckdb", "INSERT INTO t BY NAME SELECT a FROM s"),
    ("duckdb", "CREATE TABLE t AS SELECT * FROM read_csv_auto('x.csv')"), ("duckdb", "INSERT OR REPLACE INTO t SELECT a FROM s"), ("duckdb", "SELECT * EXCLUDE (b) FROM s"),
    ("duckdb", "FROM s"), ("duckdb", "COPY t FROM 'x.csv' (HEADER)"), ("duckdb", "SELECT * FROM 'x.parquet'"),
    ("trino", "CREATE TABLE t WITH (format = 'ORC') AS SELECT a FROM s"), ("trino", "INSERT INTO t SELECT a FROM s CROSS JOIN UNNEST(arr) AS u (x)"),
    ("athena", "UNLOAD (SELECT a FROM s) TO 's3://b/p' WITH (format = 'PARQUET')"), ("trino", "SELECT a FROM s FOR VERSION AS OF 123"), ("trino", "CREATE TABLE t (LIKE s INCLUDING PROPERTIES)"),
    ("athena", "CREATE TABLE t WITH (external_location = 's3://b/p') AS SELECT a FROM s"), ("trino", "MERGE INTO t USING s ON t.k = s.k WHEN MATCHED THEN DELETE"),
    ("teradata", "SEL a FROM s"), ("teradata", "INSERT INTO t SEL a FROM s QUALIFY row_number() OVER (ORDER BY a) = 1"), ("teradata", "CREATE VOLATILE TABLE t AS (SELECT a FROM s) WITH DATA ON COMMIT PRESERVE ROWS"),
    ("teradata", "CREATE TABLE t AS s WITH NO DATA"), ("teradata", "UPDATE t FROM s SET a = s.a WHERE t.k = s.k"), ("teradata", "LOCKING ROW FOR ACCESS SELECT a FROM s"),
    ("exasol", "IMPORT INTO t FROM CSV AT 'http://h/' FILE 'x.csv'"), ("exasol", "EXPORT (SELECT a FROM s) INTO CSV AT 'http://h/' FILE 'o.csv'"), ("exasol", "SELECT * FROM TABLE t"),
    ("exasol", "SELECT a FROM table(generator()) v"), ("exasol", "MERGE INTO t USING s ON t.k = s.k WHEN MATCHED THEN UPDATE SET a = s.a WHERE s.a > 1"),
    ("vertica", "COPY t FROM '/tmp/x.csv' DELIMITER ','"), ("vertica", "INSERT /*+ DIRECT */ INTO t SELECT a FROM s"), ("vertica", "CREATE TABLE t AS SELECT a FROM s SEGMENTED BY hash(a) ALL NODES"),
    ("vertica", "SELECT swap_partitions_between_tables(a, b, c, d) FROM t"), ("ansi", "SELECT (SELECT swap_partitions_between_tables(a, b, c) FROM t) AS x FROM u"), ("vertica", "SELECT swap_partitions_between_tables('a', f(x)) FROM t"), ("vertica", "CREATE PROJECTION p AS SELECT a FROM s ORDER BY a"),
    ("sqlite", "INSERT OR REPLACE INTO t SELECT a FROM s"), ("sqlite", "INSERT INTO t SELECT a FROM s WHERE true ON CONFLICT (a) DO NOTHING"), ("sqlite", "CREATE TABLE t AS SELECT a FROM s INDEXED BY i1"),
    ("sqlite", "REPLACE INTO t (a) SELECT a FROM s"), ("sqlite", "CREATE TEMP TABLE t AS SELECT a FROM s"), ("sqlite", "UPDATE OR IGNORE t SET a = (SELECT a FROM s)"),
    ("db2", "CREATE TABLE t AS (SELECT a FROM s) WITH DATA"), ("db2", "SELECT a FROM s FETCH FIRST 5 ROWS ONLY"), ("db2", "INSERT INTO t SELECT a FROM s WITH UR"), ("db2", "SELECT a FROM FINAL TABLE (INSERT INTO t SELECT a FROM s)"),
    ("materialize", "CREATE MATERIALIZED VIEW mv AS SELECT a FROM s"), ("materialize", "CREATE SINK sk FROM mv INTO KAFKA CONNECTION kc (TOPIC 't')"), ("materialize", "CREATE SOURCE src FROM KAFKA CONNECTION kc (TOPIC 't') FORMAT JSON"),
    ("starrocks", "INSERT OVERWRITE t SELECT a FROM s"), ("doris", "INSERT INTO t WITH LABEL l1 SELECT a FROM s"), ("starrocks", "CREATE TABLE t AS SELECT a FROM s"), ("impala", "INSERT INTO t PARTITION (ds = '1') SELECT a FROM s"),
    ("impala", "UPSERT INTO t SELECT a FROM s"), ("impala", "COMPUTE STATS t"), ("impala", "CREATE TABLE t STORED AS PARQUET AS SELECT a FROM s"), ("greenplum", "CREATE TABLE t AS SELECT a FROM s DISTRIBUTED BY (a)"),
    ("mariadb", "INSERT INTO t SELECT a FROM s RETURNING a"), ("soql", "SELECT Id, (SELECT Name FROM Contacts) FROM Account"), ("flink", "INSERT INTO t SELECT a FROM s /*+ OPTIONS('k'='v') */"),
    ("flink", "CREATE TABLE t WITH ('connector' = 'kafka') AS SELECT a FROM s"), ("ansi", "INSERT INTO t DEFAULT VALUES"), ("ansi", "INSERT INTO t (a) VALUES ((SELECT max(a) FROM s))"),
    ("ansi", "SELECT a FROM (s JOIN u ON s.k = u.k)"), ("ansi", "SELECT a FROM s NATURAL JOIN u"), ("ansi", "VALUES (1, 2), (3, 4)"), ("ansi", "TABLE s"), ("teradata", "UPDATE FROM s SET a = s.a WHERE t.k = s.k"), ("ansi", "SELECT count%s(*) FROM s"), ("ansi", "SELECT {{ 0 % 0 }} FROM s"), ("ansi", "SELECT"), ("ansi", "INSERT INTO t"),
    ("ansi", "CREATE TABLE t AS"), ("ansi", "MERGE INTO t USING s ON t.k = s.k"), ("ansi", "UPDATE t SET"), ("ansi", "WITH q AS (SELECT 1) SELECT * FROM q, q q2"), ("ansi", "()"), ("ansi", "SELECT * FROM (((s)))"),
]
ZOO += [
    # alias forms
    ("sparksql", "SELECT explode(m) AS (k, v) FROM t"), ("hive", "SELECT posexplode(arr) AS (p, x) FROM t"), ("sparksql", "SELECT inline(arr) AS (a, b) FROM t"),
    ("sparksql", "INSERT INTO u SELECT stack(2, a, b) AS (c1) FROM t"), ("sparksql", "SELECT k, v FROM t LATERAL VIEW explode(m) e AS k, v"),
    ("hive", "SELECT TRANSFORM (a, b) USING 'cat' AS (x, y) FROM t"), ("ansi", "SELECT d.c1 FROM (SELECT a, b FROM t) AS d (c1, c2)"),
    ("postgres", "SELECT * FROM generate_series(1, 3) WITH ORDINALITY AS g (v, n)"), ("postgres", "SELECT * FROM json_to_record('{}') AS x (a int, b text)"),
    ("postgres", "INSERT INTO u SELECT v.a FROM (VALUES (1, 2)) AS v (a, b)"), ("snowflake", "SELECT f.value AS v FROM t, TABLE(FLATTEN(t.arr)) AS f (seq, key, path, index, value, this)"),
    ("tsql", "SELECT x = a, y = b FROM t"), ("tsql", "SELECT a AS [my col], b 'str alias' FROM t"), ("mysql", "SELECT a AS `my col`, b 'str alias' FROM t"),
    ("bigquery", "SELECT * FROM UNNEST([STRUCT(1 AS a, 2 AS b)]) AS s"), ("bigquery", "SELECT a FROM d.s AS x WITH OFFSET AS off"), ("trino", "SELECT x FROM t CROSS JOIN UNNEST(a, b) AS u (x, y)"),
    ("oracle", "SELECT a c1, b \"C 2\" FROM t"), ("ansi", "WITH q (c1, c2) AS (SELECT a, b FROM t) INSERT INTO u SELECT c1 FROM q"), ("ansi", "CREATE VIEW v (c1, c2) AS SELECT a, b FROM t"),
    ("ansi", "INSERT INTO u (c1) SELECT a AS c1 FROM t AS x (a)"), ("duckdb", "SELECT a: b FROM t"), ("clickhouse", "SELECT a AS b, b + 1 AS c FROM t"),
]


def _subquery_matrix():
    """subquery FORMS x POSITIONS: scalar / row subqueries that are set operations, WITH queries, wrapped in extra parentheses, VALUES lists or carry
    ORDER BY ... LIMIT, in every position an expression or a relation can take"""
    forms = ["SELECT max(a) FROM x", "SELECT a FROM x UNION SELECT b FROM y", "WITH q AS (SELECT a FROM x) SELECT a FROM q", "(SELECT a FROM x)",
             "SELECT a FROM x ORDER BY a LIMIT 1", "VALUES (1)", "SELECT a FROM x EXCEPT SELECT b FROM y INTERSECT SELECT c FROM z", "SELECT 1", "SELECT * FROM x"]
    positions = ["INSERT INTO t (c) VALUES (({q}))", "INSERT INTO t VALUES (1, ({q}), 2)", "INSERT INTO t SELECT ({q}) AS c FROM s", "INSERT INTO t SELECT CASE WHEN s.a > 0 THEN ({q}) ELSE 0 END AS c FROM s",
                 "INSERT INTO t SELECT coalesce(({q}), 0) AS c FROM s", "INSERT INTO t SELECT a FROM s WHERE a IN ({q})", "INSERT INTO t SELECT a FROM s WHERE a = ({q})",
                 "INSERT INTO t SELECT s.a FROM s JOIN u ON s.a = ({q})", "UPDATE t SET c = ({q})", "UPDATE t SET c = s.a FROM s WHERE s.a IN ({q})",
                 "MERGE INTO t USING ({q}) d ON t.c = d.a WHEN MATCHED THEN UPDATE SET c = d.a", "INSERT INTO t SELECT d.a FROM ({q}) d", "WITH w AS ({q}) INSERT INTO t SELECT a FROM w",
                 "INSERT INTO t SELECT a FROM s GROUP BY a HAVING count(*) > ({q})", "INSERT INTO t SELECT a FROM s WHERE EXISTS ({q})", "INSERT INTO t SELECT a FROM s WHERE a IN (1, ({q}), 3)",
                 "CREATE TABLE t AS {q}", "CREATE VIEW v AS ({q})", "INSERT INTO t {q}", "INSERT INTO t ({q})", "SELECT a FROM s ORDER BY ({q})", "INSERT INTO t SELECT a FROM s WHERE a > ALL ({q})",
                 "INSERT INTO t SELECT a FROM s, LATERAL ({q}) l", "INSERT INTO t SELECT a FROM s WHERE (a, b) IN ({q})", "DELETE FROM t WHERE c IN ({q})"]
    return [("ansi", p.format(q=f)) for p in positions for f in forms]


ZOO += _subquery_matrix()
SILENT_DIALECTS = ["ansi", "postgres", "mysql", "sparksql", "snowflake", "tsql", "bigquery"]
SUPPORTED_POOL = [
    "INSERT INTO t1 SELECT a, b FROM s1", "CREATE TABLE t2 AS SELECT x.a, y.b FROM s1 x JOIN s2 y ON x.k = y.k",
    "SELECT * FROM s3 WHERE c IN (SELECT c FROM s4)", "INSERT INTO t3 SELECT a FROM t1 UNION ALL SELECT a FROM t2",
    "CREATE VIEW v1 AS SELECT max(a) AS m FROM t3", "INSERT INTO t4 (c1, c2) SELECT a, b FROM t1",
    "WITH q AS (SELECT a FROM s5) INSERT INTO t5 SELECT a FROM q", "DROP TABLE t9", "INSERT INTO t6 VALUES (1, 2)",
    "UPDATE t7 SET a = 1 WHERE b = 2", "DELETE FROM t8 WHERE a = 1", "INSERT INTO t1 SELECT * FROM t6",
]


def calibrate_unsupported(dialect):
    """candidates that raise UnsupportedStatementException in strict mode under this dialect on this tree"""
    key = ("unsup", dialect)
    if key not in _state:
        ok = []
        for u in UNSUPPORTED_CANDIDATES:
            out = analyse(u, dialect)
            if out["kind"] == "lib" and out["exc"] == "UnsupportedStatementException":
                ok.append(u)
        _state[key] = ok
    return _state[key]


def silent_strategy():
    from hypothesis import strategies as st

    return st.tuples(st.sampled_from(SILENT_DIALECTS), st.lists(st.integers(0, len(SUPPORTED_POOL) - 1), min_size=1, max_size=4),
                     st.integers(0, 4), st.integers(0, 99), st.integers(0, 2))


def check_silent(case):
    """case: dict(dialect, stmts, pos, unsupported, sep) -> None | detail"""
    dialect, stmts, pos, u = case["dialect"], case["stmts"], case["pos"], case["unsupported"]
    sep = case.get("sep", ";\n")
    with_u = stmts[:pos] + [u] + stmts[pos:]
    sql_with = sep.join(with_u) + ";"
    sql_without = sep.join(stmts) + ";"
    base = observe.dump(sql_without, dialect, silent=True)
    if "EXC" in base:
        return "skip"  # the supported pool statement is not accepted by this dialect: not a silent-mode question
    from sqllineage.runner import LineageRunner

    with warnings.catch_warnings(record=True) as w:
        warnings.simplefilter("always")
        got = observe.dump(sql_with, dialect, silent=True)
    if "EXC" in got:
        return {"what": "silent mode raised for a script with an unsupported statement", "got": got, "sql": sql_with}
    msgs = [str(x.message) for x in w]
    for k in ("S", "T", "I", "C", "Cfull", "cyT", "cyC"):
        if got[k] != base[k]:
            return {"what": f"silent-mode result differs from the script without the statement ({k})", "with": got[k],
                    "without": base[k], "sql": sql_with}
    if got["n"] != base["n"] + 1:
        return {"what": "statement count", "with": got["n"], "without": base["n"], "sql": sql_with}
    if not any("support" in m.lower() for m in msgs):
        return {"what": "unsupported statement skipped without a warning", "warnings": msgs[:3], "sql": sql_with}
    return None


def _silent_body(ctx):
    def body(case, res):
        dialect, idxs, pos, usel, sepsel = case
        cands = calibrate_unsupported(dialect)
        if len(cands) < 2:
            res.discard("silent:no_unsupported_candidates:" + dialect)
            return None
        stmts = [SUPPORTED_POOL[i] for i in idxs]
        pos = pos % (len(stmts) + 1)
        c = {"silent": True, "dialect": dialect, "stmts": stmts, "pos": pos, "unsupported": cands[usel % len(cands)],
             "sep": [";\n", "; ", ";\n\n-- c;\n"][sepsel]}
        d = check_silent(c)
        if d == "skip":
            res.discard("silent:base_not_accepted")
            return None
        res.case(("silent", dialect, tuple(stmts), pos, c["unsupported"], sepsel), len(stmts) >= 1,
                 labels=["silent", "silent:pos=" + ("first" if pos == 0 else "last" if pos == len(stmts) else "middle")], sample=c)
        if d is None:
            return None
        return {"kind": "silent", "case": c, "detail": d}

    return body


def _silent_worker(payload):
    shard, n, ctx = payload
    res = runner.Res()
    runner.hyp_run(silent_strategy(), _silent_body(ctx), res, seed=runner.derive_seed(ctx.seed, "C10silent", shard), max_examples=n, ctx=ctx)
    return res


# ------------------------------------------------------------------------------------------ entry points
# ------------------------------------------------------------------------------------------ coverage-guided stream
def _ddmin(case, same, budget_s=20.0):
    """token-level delta debugging of a failing text; `same(sql)` says whether the failure is still the same one"""
    import time

    t0 = time.time()
    toks = TOK.findall(case["sql"])
    n = 2
    while len(toks) >= 2 and time.time() - t0 < budget_s:
        chunk = max(1, len(toks) // n)
        cut = False
        for i in range(0, len(toks), chunk):
            cand = toks[:i] + toks[i + chunk:]
            if cand and same("".join(cand)):
                toks, n, cut = cand, max(n - 1, 2), True
                break
            if time.time() - t0 > budget_s:
                break
        if not cut:
            if chunk == 1:
                break
            n = min(len(toks), n * 2)
    return dict(case, sql="".join(toks))


def _fuzz_stream(ctx):
    """16 atheris (libFuzzer) campaigns in subprocesses (vlib/fuzz_c10.py); their statistics are merged, every new escape
    call site is minimised and reported.  When atheris cannot be imported the stream is recorded as unavailable."""
    import json
    import shutil
    import subprocess
    import sys
    import tempfile
    import time

    res = runner.Res()
    runs = ctx.n(450, 40000)
    max_s = int(max(10, min(ctx.n(30, 1500), ctx.budget_s - (time.time() - ctx.t0) - 30)))
    if max_s <= 10 and ctx.out_of_time():
        res.budget_exhausted = True
        return res
    base = tempfile.mkdtemp(prefix="verif_c10fuzz_")
    try:
        procs = []
        for shard in range(runner.NCPU):
            out = os.path.join(base, str(shard))
            os.makedirs(out)
            log = open(os.path.join(out, "log"), "w")
            procs.append((shard, out, subprocess.Popen(
                [sys.executable, "-B", os.path.join(runner.HOME, "vlib", "fuzz_c10.py"), str(shard), out, str(runs),
                 str(runner.derive_seed(ctx.seed, "C10fuzz", shard) % (2 ** 31 - 1) + 1), str(max_s), json.dumps(sorted(ctx.active))],
                stdout=log, stderr=subprocess.STDOUT, cwd=runner.HOME)))
        covs, execs, viols, unavailable = [], 0, [], 0
        for shard, out, p in procs:
            try:
                rc = p.wait(timeout=max_s + 300)
            except subprocess.TimeoutExpired:
                p.kill()
                rc = -9
            if rc == 3:
                unavailable += 1
                continue
            sp = os.path.join(out, "stats.json")
            if not os.path.exists(sp):
                tail = open(os.path.join(out, "log"), errors="replace").read()[-1500:]
                raise runner.HarnessError(f"fuzz shard {shard} left no statistics (rc={rc}):\n{tail}")
            d = json.load(open(sp))
            r = runner.Res()
            r.evals, r.nt = d["evals"], set(d["nt"])
            r.labels.update(d["labels"])
            r.kf.update(d["kf"])
            r.kf_examples.update(d["kf_examples"])
            r.samples = [tuple(x) for x in d["samples"]]
            r.discards.update(d.get("discards", {}))
            res.merge(r)
            execs += d["execs"]
            if d["execs"] < runs:
                res.labels["fuzz_shards_stopped_by_time"] += 1
            m = re.findall(r"cov: (\d+) ft: (\d+)", open(os.path.join(out, "log"), errors="replace").read())
            if m:
                covs.append((int(m[-1][0]), int(m[-1][1])))
            vp = os.path.join(out, "violations.jsonl")
            if os.path.exists(vp):
                viols.extend(json.loads(line) for line in open(vp))
        if unavailable:
            res.discard("fuzz_shards_without_atheris")
        res.extra["fuzz"] = {"engine": "atheris/libFuzzer, coverage of the sqllineage package only", "shards": len(procs) - unavailable,
                             "executions": execs, "runs_per_shard": runs, "max_s_per_shard": max_s,
                             "edges_covered_max": max((c for c, _ in covs), default=0), "features_max": max((f for _, f in covs), default=0),
                             "corpus": "even shards empty, odd shards ~80 corpus statements"}
        seen = set()
        for v in viols:
            key = (v["detail"].get("exc"), v["detail"].get("site"))
            if key in seen or len(seen) >= 5:
                continue
            seen.add(key)
            c = v["case"]

            def same(sql, c=c, key=key):
                o = analyse(sql, c["dialect"])
                return o["kind"] == "escape" and (o.get("exc"), o.get("site")) == key

            if same(c["sql"]):  # reproduces outside the fuzzer process (otherwise state leaked between iterations: not reported)
                small = _ddmin(c, same)
                res.violation(v["kind"], small, analyse(small["sql"], small["dialect"]))
            else:
                res.discard("fuzz_escape_not_reproducible_in_a_fresh_process")
    finally:
        shutil.rmtree(base, ignore_errors=True)
    return res


def replay(case):
    if case.get("silent"):
        d = check_silent(case)
        return None if d in (None, "skip") else {"kind": "silent", "case": case, "detail": d}
    out = analyse(case["sql"], case["dialect"])
    if case.get("expect") == "InvalidSyntaxException":
        if out["kind"] == "lib" and out["exc"] == "InvalidSyntaxException":
            return None
        return {"kind": "unparsable_not_reported", "case": case, "detail": out}
    if out["kind"] == "escape":
        return {"kind": "escape:" + out["exc"], "case": case, "detail": out}
    return None


def run(ctx):
    s = _pool()
    n = ctx.n(10000, 400000)
    res = runner.merge_all(runner.pmap(_mutate_worker, [(i, n // runner.NCPU, ctx) for i in range(runner.NCPU)]))
    # cross-dialect: corpus statements under foreign dialects (quick: seeded stride sample)
    items = [(i, d) for i in range(len(s["pool"]) - len(ZOO)) for d in s["dialects"] if d != s["pool"][i]["dialect"]]
    stride = 9 if ctx.quick else 1
    items = items[(ctx.seed % stride):: stride]
    chunks = runner.NCPU * 4
    res.merge(runner.merge_all(runner.pmap(_cross_worker, [(items[c::chunks], ctx) for c in range(chunks)])))
    # the dialect-specific statement zoo under every dialect (and the legacy analyzer), every run
    nzoo = len(ZOO)
    first = len(s["pool"]) - nzoo
    zitems = [(first + i, d) for i in range(nzoo) for d in s["dialects"]]
    res.merge(runner.merge_all(runner.pmap(_cross_worker, [(zitems[c::chunks], ctx) for c in range(chunks)])))
    n2 = ctx.n(2400, 40000)
    res.merge(runner.merge_all(runner.pmap(_reject_worker, [(i, n2 // runner.NCPU, ctx) for i in range(runner.NCPU)])))
    n3 = ctx.n(640, 12000)
    calib = {d: len(calibrate_unsupported(d)) for d in SILENT_DIALECTS}  # in the parent: workers inherit it through fork
    res.merge(runner.merge_all(runner.pmap(_silent_worker, [(i, n3 // runner.NCPU, ctx) for i in range(runner.NCPU)])))
    res.merge(_fuzz_stream(ctx))
    res.extra["dialects"] = len(s["dialects"])
    res.extra["unsupported_statements_calibrated"] = calib
    return res
