"""Harness core: tiers, seeding, 16-way sharding, Hypothesis driver with bounded shrinking,
known-findings bookkeeping, evidence + replay writing, exit codes.

Exit codes of ./check:  0 = property held on everything explored (only listed known findings seen)
                        1 = violation (a line "VIOLATION property=<id> replay=<path>" is printed)
                        2 = harness error (import failure, corpus missing, oracle crashed) - never a violation
"""
from __future__ import annotations

import collections
import hashlib
import json
import multiprocessing as mp
import os
import sys
import time
import traceback

HOME = os.environ.get("VERIF_HOME") or os.path.dirname(os.path.dirname(os.path.abspath(__file__)))
REPO = os.environ.get("VERIF_REPO", "/repo")
NCPU = max(1, min(16, os.cpu_count() or 1))


def setup_paths() -> None:
    """repository under test first, then the harness, then the offline-installed fallback deps"""
    for p in (REPO, HOME):
        if p in sys.path:
            sys.path.remove(p)
    sys.path.insert(0, REPO)
    sys.path.insert(1, HOME)
    deps = os.path.join(HOME, ".deps")
    if deps not in sys.path:
        sys.path.append(deps)


def quiet() -> None:
    import logging
    import warnings

    warnings.simplefilter("ignore")
    logging.disable(logging.CRITICAL)


def h8(x) -> str:
    if not isinstance(x, (str, bytes)):
        x = json.dumps(x, sort_keys=True, default=str)
    if isinstance(x, str):
        x = x.encode("utf-8", "surrogatepass")
    return hashlib.blake2b(x, digest_size=8).hexdigest()


def derive_seed(seed: int, *parts) -> int:
    return int(hashlib.blake2b(repr((seed,) + parts).encode(), digest_size=4).hexdigest(), 16)


class HarnessError(Exception):
    pass


class Ctx:
    """Everything a worker needs; picklable."""

    def __init__(self, pid, tier, seed, active=(), budget_s=None):
        self.pid = pid
        self.tier = tier
        self.seed = seed
        self.active = set(active)  # ids of known findings that still reproduce on this tree
        self.t0 = time.time()
        self.budget_s = budget_s or (float(os.environ.get("VERIF_BUDGET_S", 0)) or (240.0 if tier == "quick" else 2400.0))

    @property
    def quick(self):
        return self.tier == "quick"

    def n(self, quick, thorough):
        """case budget per tier, scalable with VERIF_SCALE for experiments"""
        v = quick if self.quick else thorough
        return max(1, int(v * float(os.environ.get("VERIF_SCALE", "1"))))

    def out_of_time(self):
        return time.time() - self.t0 > self.budget_s


class Res:
    """Mergeable result of one shard / stream."""

    MAX_SAMPLES = 10

    def __init__(self):
        self.evals = 0
        self.nt = set()  # hashes of distinct non-trivial case keys
        self.labels = collections.Counter()
        self.samples = []  # (hash, sample) - the samples with the smallest hashes are kept
        self.kf = collections.Counter()  # known finding id -> hits
        self.kf_examples = {}
        self.violations = []  # list of dict(kind, case, detail)
        self.discards = collections.Counter()
        self.extra = {}
        self.budget_exhausted = False

    def case(self, key, nontrivial, labels=(), sample=None):
        self.evals += 1
        hk = h8(key)
        if nontrivial:
            self.nt.add(hk)
        for lab in labels:
            self.labels[lab] += 1
        if sample is not None and nontrivial:
            if len(self.samples) < self.MAX_SAMPLES or hk < self.samples[-1][0]:
                self.samples.append((hk, sample))
                self.samples.sort(key=lambda x: x[0])
                del self.samples[self.MAX_SAMPLES:]

    @property
    def nt_count(self):
        """distinct non-trivial cases: hashed keys + cases counted by an enumeration that is distinct by construction"""
        return len(self.nt) + int(self.extra.get("nt_extra", 0))

    def discard(self, why):
        self.discards[why] += 1

    def known(self, fid, example=None):
        self.kf[fid] += 1
        if example is not None and fid not in self.kf_examples:
            self.kf_examples[fid] = example

    def violation(self, kind, case, detail):
        self.violations.append({"kind": kind, "case": case, "detail": detail})

    def merge(self, o: "Res"):
        self.evals += o.evals
        self.nt |= o.nt
        self.labels.update(o.labels)
        self.samples = sorted(self.samples + o.samples, key=lambda x: x[0])
        dedup, seen = [], set()
        for hk, s in self.samples:
            if hk not in seen:
                seen.add(hk)
                dedup.append((hk, s))
        self.samples = dedup[: self.MAX_SAMPLES]
        self.kf.update(o.kf)
        for k, v in o.kf_examples.items():
            self.kf_examples.setdefault(k, v)
        self.violations.extend(o.violations)
        self.discards.update(o.discards)
        for k, v in o.extra.items():
            if isinstance(v, (int, float)) and isinstance(self.extra.get(k, 0), (int, float)):
                self.extra[k] = self.extra.get(k, 0) + v
            else:
                self.extra.setdefault(k, v)
        self.budget_exhausted |= o.budget_exhausted
        return self


# ------------------------------------------------------------------------------------------- sharding
def _shard_entry(args):
    func, payload = args
    try:
        quiet()
        return ("ok", func(payload))
    except BaseException as e:  # noqa
        return ("err", "".join(traceback.format_exception(type(e), e, e.__traceback__))[-4000:])


def pmap(func, payloads, procs=None, fresh=False):
    """Run func(payload) for each payload on a fork()ed pool; func must be a module-level function.
    Returns the list of results in order; a crash inside func is a harness error."""
    payloads = list(payloads)
    if not payloads:
        return []
    procs = min(procs or NCPU, len(payloads))
    if (procs <= 1 and not fresh) or os.environ.get("VERIF_NOFORK"):
        outs = [_shard_entry((func, p)) for p in payloads]
    else:
        ctx = mp.get_context("fork")
        with ctx.Pool(procs, maxtasksperchild=1 if fresh else None) as pool:
            outs = pool.map(_shard_entry, [(func, p) for p in payloads], chunksize=1)
    res = []
    for tag, val in outs:
        if tag == "err":
            raise HarnessError("worker crashed:\n" + val)
        res.append(val)
    return res


def merge_all(results):
    tot = Res()
    for r in results:
        tot.merge(r)
    return tot


# ------------------------------------------------------------------------------- Hypothesis driver
class _Fail(Exception):
    pass


def hyp_run(strategy, body, res: Res, *, seed: int, max_examples: int, ctx: Ctx = None, shrink_s: float = None,
            stateful_machine=None):
    """Drive `body(case, res)` over `strategy`.

    body returns None when the property held on the case (or the mismatch was a listed known finding, which the
    body itself records with res.known) and a dict {"kind","case","detail"} for a violation.  On a violation
    Hypothesis shrinks for at most `shrink_s` seconds (its own hard cap is 5 min); the smallest failing case seen
    is recorded with res.violation.  Exceptions other than the internal failure marker are harness errors.
    """
    from hypothesis import HealthCheck, Phase, Verbosity, given, settings
    from hypothesis import seed as hseed

    if shrink_s is None:
        shrink_s = float(os.environ.get("VERIF_SHRINK_S", "45" if (ctx is None or ctx.quick) else "180"))
    st = {"best": None, "t_fail": None, "err": None}
    scratch = Res()

    @hseed(seed)
    @settings(max_examples=max_examples, database=None, deadline=None, derandomize=False, report_multiple_bugs=False,
              suppress_health_check=list(HealthCheck), phases=[Phase.generate, Phase.shrink],
              verbosity=Verbosity.quiet, print_blob=False)
    @given(strategy)
    def t(case):
        if st["t_fail"] is not None and time.time() - st["t_fail"] > shrink_s:
            return  # stop shrinking: everything "passes" from now on, the best case so far is kept
        if st["t_fail"] is None and ctx is not None and ctx.out_of_time():
            res.budget_exhausted = True
            return
        try:
            mm = body(case, res if st["t_fail"] is None else scratch)
        except _Fail:
            raise
        except Exception as e:  # oracle / generator bug -> harness error, never a violation
            if type(e).__module__.startswith("hypothesis"):
                raise
            st["err"] = "".join(traceback.format_exception(type(e), e, e.__traceback__))[-4000:]
            raise
        if mm is not None:
            size = len(json.dumps(mm.get("case"), default=str))
            if st["best"] is None or size <= st["best"][0]:
                st["best"] = (size, mm)
            if st["t_fail"] is None:
                st["t_fail"] = time.time()
            raise _Fail()

    try:
        t()
    except _Fail:
        pass
    except BaseException as e:  # Flaky after the shrink budget ran out, or a harness error
        if st["best"] is None:
            if st["err"]:
                raise HarnessError(st["err"])
            raise
    if st["best"] is not None:
        mm = st["best"][1]
        res.violation(mm.get("kind", "mismatch"), mm.get("case"), mm.get("detail"))
    return res


# ------------------------------------------------------------------------------- findings / evidence
class Findings:
    def __init__(self, pid):
        self.pid = pid
        path = os.path.join(HOME, "known_findings.json")
        self.data = json.load(open(path)) if os.path.exists(path) else {"findings": [], "fixed": []}
        self.entries = [e for e in self.data.get("findings", []) if e["property"] == pid]
        self.active = set()
        self.lines = []

    def probe(self, mod):
        """replay every listed representative input; a finding is active only while it still reproduces"""
        for e in self.entries:
            try:
                mm = mod.replay(e["representative"])
            except Exception as ex:  # a representative that crashes the harness is a harness error
                raise HarnessError(f"known finding {e['id']}: replay crashed: {ex!r}\n{traceback.format_exc()}")
            if mm is not None:
                self.active.add(e["id"])
                self.lines.append(f"KNOWN-FINDING: property={self.pid} {e['id']}: {e['what']}")
            else:
                self.lines.append(f"# known finding {e['id']} no longer reproduces (inert; its class is checked strictly)")
        return self.active


def write_replay(pid, violation):
    d = os.path.join(os.environ.get("VERIF_REPLAY_DIR") or os.path.join(HOME, "replays"), pid)
    os.makedirs(d, exist_ok=True)
    body = {"property": pid, "kind": violation["kind"], "case": violation["case"], "detail": violation["detail"]}
    name = h8(json.dumps([violation["kind"], violation["case"]], sort_keys=True, default=str)) + ".json"
    path = os.path.join(d, name)
    with open(path, "w") as f:
        json.dump(body, f, indent=1, sort_keys=True, default=str)
    return os.path.relpath(path, HOME)


def write_evidence(pid, tier, seed, level, res: Res, rule, assumptions, wall_s, exhaustive=False, extra=None):
    cov = {
        "evaluations": int(res.evals),
        "distinct_nontrivial": res.nt_count,
        "rule": rule,
        "samples": [s for _, s in res.samples][: Res.MAX_SAMPLES],
        "labels": dict(sorted(res.labels.items())),
        "known_finding_hits": dict(sorted(res.kf.items())),
        "known_finding_examples": {k: res.kf_examples[k] for k in sorted(res.kf_examples)},
        "discarded": dict(sorted(res.discards.items())),
        "budget_exhausted": bool(res.budget_exhausted),
    }
    if exhaustive:
        cov["exhaustive"] = True
    cov.update(res.extra)
    if extra:
        cov.update(extra)
    ev = {
        "property_id": pid,
        "tier": tier,
        "seed": int(seed),
        "level": level,
        "coverage": cov,
        "assumptions": list(assumptions),
        "wall_s": round(wall_s, 2),
        "violations": len(res.violations),
    }
    evdir = os.environ.get("VERIF_EVIDENCE_DIR") or os.path.join(HOME, "evidence")
    os.makedirs(evdir, exist_ok=True)
    path = os.path.join(evdir, f"{pid}.json")
    tmp = path + ".tmp"
    with open(tmp, "w") as f:
        json.dump(ev, f, indent=1, default=str)
    os.replace(tmp, path)
    return path
