"""Canonical observation of a LineageRunner through public accessors only."""
import json
import re

ANON = re.compile(r"subquery_-?\d+")


def canon(s: str) -> str:
    return ANON.sub("subquery_N", s)


def col_str(c) -> str:
    """printed column; unresolved columns are printed as name?cand1|cand2"""
    if c.parent is not None:
        return canon(str(c))
    cands = "|".join(canon(str(p)) for p in c.parent_candidates)
    return f"{c.raw_name}?{cands}" if cands else c.raw_name


def cyto(elems):
    """export compared as sets: nodes by data (minus positional noise), edges by (source, target)"""
    nodes = sorted(canon(json.dumps(e["data"], sort_keys=True)) for e in elems if "source" not in e["data"])
    edges = sorted((canon(e["data"]["source"]), canon(e["data"]["target"])) for e in elems if "source" in e["data"])
    return {"nodes": nodes, "edges": [list(e) for e in edges]}


def runner_of(sql, dialect="ansi", metadata=None, silent=False, provider=None):
    from sqllineage.core.metadata.dummy import DummyMetaDataProvider
    from sqllineage.runner import LineageRunner

    kw = {}
    if provider is not None:
        kw["metadata_provider"] = provider
    elif metadata is not None:
        kw["metadata_provider"] = DummyMetaDataProvider(metadata)
    return LineageRunner(sql, dialect=dialect, silent_mode=silent, **kw)


def tables(lr):
    return {"S": [str(t) for t in lr.source_tables], "T": [str(t) for t in lr.target_tables],
            "I": [str(t) for t in lr.intermediate_tables]}


def paths(lr, **kw):
    return [[col_str(c) for c in p] for p in lr.get_column_lineage(**kw)]


def pairs(lr):
    """end-to-end (source column, target column) pairs.  A degenerate one-node 'path' (a source-less target column: finding K-onenode, judged by
    C06) is not a pair and is left out"""
    return sorted({(p[0], p[-1]) for p in paths(lr) if len(p) >= 2})


def exc_name(e):
    return f"{type(e).__module__}.{type(e).__name__}"


def stable(paths):
    """the order among paths that mention an anonymous subquery follows its generated name subquery_<hash>, which the properties
    exempt: such lists are re-sorted on their canonical text; all other lists keep the order the code returned"""
    if any("subquery_N" in c for p in paths for c in p):
        return sorted(paths, key=lambda p: (p[-1], p[0], p))
    return paths


def dump(sql, dialect="ansi", metadata=None, silent=False, full=True, provider=None):
    """everything a user can observe; an exception is part of the observation"""
    try:
        lr = runner_of(sql, dialect, metadata, silent, provider)
        out = tables(lr)
        out["C"] = stable(paths(lr))
        out["n"] = len(lr.statements())
        if full:
            out["Cfull"] = stable(paths(lr, exclude_path_ending_in_subquery=False))
            out["Cnosq"] = stable(paths(lr, exclude_subquery_columns=True))
            out["cyT"] = cyto(lr.to_cytoscape())
            out["cyC"] = cyto(lr.to_cytoscape("column"))
            out["str"] = canon(str(lr))
        return out
    except Exception as e:  # noqa
        return {"EXC": exc_name(e), "msg": str(e)[:300]}


def is_lib_exc(name: str) -> bool:
    return name.startswith("sqllineage.exceptions.")
