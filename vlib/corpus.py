"""Harvested corpus: the SQL texts the repository's own tests analyse (with the dialect and the expected answers the
tests assert) + the TPC-DS scripts bundled with the package (read from the tree under test)."""
import glob
import json
import os

from vlib import runner

_cache = {}


def tests():
    if "tests" not in _cache:
        path = os.path.join(runner.HOME, "corpus", "tests.jsonl")
        if not os.path.exists(path):
            raise runner.HarnessError("corpus/tests.jsonl missing")
        _cache["tests"] = [json.loads(l) for l in open(path)]
    return _cache["tests"]


def tpcds():
    if "tpcds" not in _cache:
        out = []
        for f in sorted(glob.glob(os.path.join(runner.REPO, "sqllineage", "data", "tpcds", "*.sql"))):
            out.append({"sql": open(f).read(), "dialect": "ansi", "name": os.path.basename(f), "metadata": None})
        _cache["tpcds"] = out
    return _cache["tpcds"]


def plain(include_tpcds=False):
    """corpus entries without metadata provider (sql, dialect)"""
    out = [e for e in tests() if not e.get("metadata") and not e.get("md_class")]
    if include_tpcds:
        out = out + tpcds()
    return out
