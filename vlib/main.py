"""./check <ID> [--tier quick|thorough] [--replay FILE]   (see vlib/runner.py for the exit-code contract)"""
import argparse
import glob
import importlib
import json
import os
import sys
import time
import traceback

sys.path.insert(0, os.path.dirname(os.path.dirname(os.path.abspath(__file__))))
from vlib import runner  # noqa: E402


def ensure_deps():
    """hypothesis must be importable; install it offline beside the harness when it is not (idempotent)."""
    try:
        import hypothesis  # noqa
        return
    except ImportError:
        pass
    import subprocess

    deps = os.path.join(runner.HOME, ".deps")
    subprocess.run(
        [sys.executable, "-m", "pip", "install", "-q", "--no-index", "--find-links", "/opt/veriftools/wheels",
         "--target", deps, "hypothesis"], check=False, stdout=subprocess.DEVNULL, stderr=subprocess.DEVNULL)
    importlib.invalidate_caches()
    import hypothesis  # noqa


def main(argv=None):
    ap = argparse.ArgumentParser()
    ap.add_argument("pid")
    ap.add_argument("--tier", default=os.environ.get("VERIF_TIER") or "quick", choices=["quick", "thorough"])
    ap.add_argument("--replay")
    args = ap.parse_args(argv)
    pid = args.pid
    try:
        seed = int(os.environ.get("VERIF_SEED", "1") or 1)
    except ValueError:
        seed = 1
    t0 = time.time()
    try:
        runner.setup_paths()
        runner.quiet()
        ensure_deps()
        if not os.path.isdir(os.path.join(runner.REPO, "sqllineage")):
            raise runner.HarnessError(f"no sqllineage package under {runner.REPO}")
        mod = importlib.import_module(f"vlib.props.{pid}")
        if args.replay:
            body = json.load(open(args.replay))
            mm = mod.replay(body.get("case", body))
            if mm is not None:
                print(f"VIOLATION property={pid} replay={args.replay}")
                print("detail:", json.dumps(mm.get("detail"), default=str)[:2000])
                return 1
            print(f"replay {args.replay}: property {pid} holds on this case")
            return 0
        F = runner.Findings(pid)
        F.probe(mod)
        ctx = runner.Ctx(pid, args.tier, seed, active=F.active)
        res = runner.Res()
        # committed regression replays (minimised reproductions of fixed defects and of seeded changes): strict
        for path in sorted(glob.glob(os.path.join(runner.HOME, "replays", "regress", pid, "*.json"))):
            body = json.load(open(path))
            mm = mod.replay(body["case"])
            res.labels["regress_replays"] += 1
            if mm is not None:
                fid = getattr(mod, "classify", lambda c, m: None)(body["case"], mm)
                if fid and fid in ctx.active:
                    res.known(fid)
                else:
                    res.violation("regress:" + os.path.basename(path), body["case"], mm.get("detail"))
        res.merge(mod.run(ctx))
        wall = time.time() - t0
        runner.write_evidence(pid, args.tier, seed, mod.LEVEL, res, mod.RULE, mod.ASSUMPTIONS, wall,
                              exhaustive=getattr(mod, "EXHAUSTIVE", False) is True and not res.budget_exhausted,
                              extra={"exhaustive_streams": getattr(mod, "EXHAUSTIVE_STREAMS", None)} if getattr(mod, "EXHAUSTIVE_STREAMS", None) else None)
        for line in F.lines:
            print(line)
        for fid, n in sorted(res.kf.items()):
            print(f"# known finding {fid}: {n} generated case(s) matched and were counted, not judged")
        print(f"# {pid} tier={args.tier} seed={seed} evaluations={res.evals} distinct_nontrivial={res.nt_count} "
              f"violations={len(res.violations)} wall={wall:.1f}s" + (" BUDGET-EXHAUSTED" if res.budget_exhausted else ""))
        if res.violations:
            seen = set()
            for v in res.violations:
                path = runner.write_replay(pid, v)
                if path in seen:
                    continue
                seen.add(path)
                if len(seen) <= 8:
                    print(f"VIOLATION property={pid} replay={path}")
                    print("  kind:", v["kind"], "detail:", json.dumps(v["detail"], default=str)[:600])
            return 1
        return 0
    except runner.HarnessError as e:
        print(f"HARNESS-ERROR property={pid}: {e}", file=sys.stderr)
        return 2
    except Exception:
        print(f"HARNESS-ERROR property={pid}:\n{traceback.format_exc()}", file=sys.stderr)
        return 2


if __name__ == "__main__":
    sys.exit(main())
