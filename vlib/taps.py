"""Taps obtained by wrapping documented public entry points from the harness (no source hook in the repository):
   statement tap  : LineageAnalyzer.analyze of both analyzers -> (statement text, StatementLineageHolder)
   session tap    : MetaDataProvider.register_session_metadata / deregister_session_metadata / get_table_columns
"""
import contextlib


@contextlib.contextmanager
def statement_tap():
    from sqllineage.core.parser.sqlfluff.analyzer import SqlFluffLineageAnalyzer
    from sqllineage.core.parser.sqlparse.analyzer import SqlParseLineageAnalyzer

    log = []
    saved = []
    for cls in (SqlFluffLineageAnalyzer, SqlParseLineageAnalyzer):
        orig = cls.analyze

        def make(orig):
            def analyze(self, sql, metadata_provider, *a, **kw):
                holder = orig(self, sql, metadata_provider, *a, **kw)
                log.append((sql, holder))
                return holder

            return analyze

        saved.append((cls, orig))
        cls.analyze = make(orig)
    try:
        yield log
    finally:
        for cls, orig in saved:
            cls.analyze = orig


@contextlib.contextmanager
def session_tap(fault_at=None, fault_exc=None):
    """records (event, payload) for register / deregister / lookup on every provider; optionally raises `fault_exc`
    on the `fault_at`-th get_table_columns lookup (1-based)"""
    from sqllineage.core.metadata_provider import MetaDataProvider

    log = []
    count = {"lookups": 0}
    o_reg, o_dereg, o_get = (MetaDataProvider.register_session_metadata, MetaDataProvider.deregister_session_metadata,
                             MetaDataProvider.get_table_columns)

    def reg(self, table, columns):
        log.append(("register", str(table), [c.raw_name for c in columns]))
        return o_reg(self, table, columns)

    def dereg(self):
        log.append(("deregister", None, None))
        return o_dereg(self)

    def get(self, table, **kw):
        count["lookups"] += 1
        log.append(("lookup", str(table), None))
        if fault_at is not None and count["lookups"] == fault_at:
            raise (fault_exc or RuntimeError("injected provider fault"))
        return o_get(self, table, **kw)

    MetaDataProvider.register_session_metadata = reg
    MetaDataProvider.deregister_session_metadata = dereg
    MetaDataProvider.get_table_columns = get
    try:
        yield log
    finally:
        MetaDataProvider.register_session_metadata = o_reg
        MetaDataProvider.deregister_session_metadata = o_dereg
        MetaDataProvider.get_table_columns = o_get
