"""Child of the C11 check: started with a given PYTHONHASHSEED; dumps every case canonically and re-queries the
accessors of a second runner in a permuted order, several times.   stdin: JSON {"cases": [...], "perm": int}
stdout: JSON list, one entry per case: {"dump": ..., "order": null | detail}"""
import json
import os
import sys

HOME = os.path.dirname(os.path.dirname(os.path.abspath(__file__)))
sys.path.insert(0, os.environ.get("VERIF_REPO", "/repo"))
sys.path.insert(1, HOME)
sys.path.append(os.path.join(HOME, ".deps"))
import logging  # noqa: E402
import warnings  # noqa: E402

warnings.simplefilter("ignore")
logging.disable(logging.CRITICAL)
from vlib import observe  # noqa: E402

ACCESSORS = ["S", "T", "I", "C", "Cfull", "Cnosq", "cyT", "cyC", "str", "n"]


_stable = observe.stable


def get(lr, name):
    if name == "S":
        return [str(t) for t in lr.source_tables]
    if name == "T":
        return [str(t) for t in lr.target_tables]
    if name == "I":
        return [str(t) for t in lr.intermediate_tables]
    if name == "C":
        return _stable(observe.paths(lr))
    if name == "Cfull":
        return _stable(observe.paths(lr, exclude_path_ending_in_subquery=False))
    if name == "Cnosq":
        return _stable(observe.paths(lr, exclude_subquery_columns=True))
    if name == "cyT":
        return observe.cyto(lr.to_cytoscape())
    if name == "cyC":
        return observe.cyto(lr.to_cytoscape("column"))
    if name == "str":
        return observe.canon(str(lr))
    if name == "n":
        return len(lr.statements())


def perm_of(k):
    """deterministic permutation of the accessor list, with repetitions"""
    order = list(ACCESSORS)
    out = []
    x = k * 2654435761 % (2 ** 32)
    while order:
        x = (x * 1103515245 + 12345) % (2 ** 31)
        out.append(order.pop(x % len(order)))
    return out + out[:4] + out[::-1][:3]


def main():
    req = json.load(sys.stdin)
    out = []
    scoped = req.get("scoped")
    for i, c in enumerate(req["cases"]):
        if scoped is not None:
            # C14: a scoped override (of another setting, or of the default schema itself) on top of the environment
            from sqllineage.config import SQLLineageConfig

            with SQLLineageConfig(**scoped):
                d = observe.dump(c["sql"], c.get("dialect", "ansi"), metadata=c.get("metadata"))
            out.append({"dump": d, "order": None})
            continue
        d = observe.dump(c["sql"], c.get("dialect", "ansi"), metadata=c.get("metadata"))
        for k in ("C", "Cfull", "Cnosq"):
            if k in d:
                d[k] = _stable(d[k])
        order = None
        if "EXC" not in d:
            try:
                lr = observe.runner_of(c["sql"], c.get("dialect", "ansi"), metadata=c.get("metadata"))
                for name in perm_of(req.get("perm", 0) + i):
                    v = get(lr, name)
                    if json.dumps(v, sort_keys=True) != json.dumps(d[name], sort_keys=True):
                        order = {"accessor": name, "first_dump": d[name], "permuted_call": v}
                        break
            except Exception as e:  # noqa
                order = {"what": "permuted accessor calls raised", "exc": repr(e)[:300]}
        if "EXC" in d:
            # a failing script: the same exception class from every accessor, in a permuted order, on repeated calls of ONE runner
            try:
                lr = observe.runner_of(c["sql"], c.get("dialect", "ansi"), metadata=c.get("metadata"))
                for name in perm_of(req.get("perm", 0) + i)[:8]:
                    try:
                        get(lr, name)
                        got = "no exception"
                    except Exception as e:  # noqa
                        got = observe.exc_name(e)
                    if got != d["EXC"]:
                        order = {"accessor": name, "first_call_raised": d["EXC"], "permuted_call": got}
                        break
            except Exception as e:  # noqa
                order = {"what": "constructing the runner raised", "exc": repr(e)[:200]}
        out.append({"dump": d, "order": order})
    json.dump(out, sys.stdout)


if __name__ == "__main__":
    main()
