"""C10, coverage-guided stream: an atheris (libFuzzer) campaign against the error contract.

Run as a subprocess, one per shard:   python -B vlib/fuzz_c10.py <shard> <outdir> <runs> <seed> <max_s> <active-ids-json>

The target decodes the fuzzer's bytes into (dialect, text):
  raw mode        : byte 0 selects the dialect, the rest is the SQL text itself (libFuzzer's byte mutations, its
                    dictionary of SQL keywords / quoting / templating metacharacters, cross-over) - seeded with corpus statements
  structured mode : a pool statement index + up to 6 token-level operations, the same operation set as the Hypothesis
                    mutator of the mutate stream (C10._mutate)
and judges the outcome with the very oracle of the other streams (C10.analyse: every accessor touched; an exception that is
not a SQLLineageException escapes; known call sites are counted).  Only the sqllineage package is instrumented, so the
coverage signal is about the code under test, not about sqlfluff's grammar.  The campaign does not stop at the first
escape: each new (exception type, call site) is appended to <outdir>/violations.jsonl and the search goes on.
Statistics are flushed to <outdir>/stats.json (atexit handlers do not run under libFuzzer).
Exit code 3 = atheris is not importable (the parent records the stream as unavailable; never a violation).
"""
import json
import os
import sys

sys.path.insert(0, os.path.dirname(os.path.dirname(os.path.abspath(__file__))))
from vlib import runner  # noqa: E402

FAST = ["non-validating", "ansi", "mysql", "tsql", "sparksql", "postgres", "snowflake", "bigquery"]


def main():
    shard, outdir, runs, seed, max_s = int(sys.argv[1]), sys.argv[2], int(sys.argv[3]), int(sys.argv[4]), int(sys.argv[5])
    active = set(json.loads(sys.argv[6]))
    runner.setup_paths()
    runner.quiet()
    try:
        import atheris
    except ImportError:
        return 3
    with atheris.instrument_imports(include=["sqllineage"]):
        import sqllineage.runner  # noqa
        import sqllineage.core.parser.sqlfluff.analyzer  # noqa
        import sqllineage.core.parser.sqlparse.analyzer  # noqa
        import sqllineage.core.parser.sqlfluff.extractors  # noqa
        import sqllineage.core.holders  # noqa
        import sqllineage.core.models  # noqa
    from vlib.props import C10

    s = C10._pool()
    dialects = FAST + [d for d in s["dialects"] if d not in FAST]
    ctx = runner.Ctx("C10", "quick", seed, active=active)
    res = runner.Res()
    seen_sites = set()
    os.makedirs(outdir, exist_ok=True)
    corpus_dir = os.path.join(outdir, "corpus")
    os.makedirs(corpus_dir, exist_ok=True)
    if shard % 2 == 1:  # odd shards start from valid inputs, even shards from the empty corpus
        step = max(1, len(s["pool"]) // 80)
        for k, e in enumerate(s["pool"][shard % step:: step]):
            d = dialects.index(e["dialect"]) if e["dialect"] in dialects else 1
            with open(os.path.join(corpus_dir, f"seed{k}"), "wb") as f:
                f.write(bytes([0, d]) + e["sql"].encode("utf-8", "replace")[:2000])
    with open(os.path.join(outdir, "dict.txt"), "w") as f:
        for w in sorted(set(C10.EXTRA)):
            if w and all(32 <= ord(ch) < 127 for ch in w):
                f.write('"' + w.replace("\\", "\\\\").replace('"', '\\"') + '"\n')
    count = [0]

    def flush():
        tmp = os.path.join(outdir, "stats.json.tmp")
        with open(tmp, "w") as f:
            json.dump({"evals": res.evals, "nt": sorted(res.nt), "labels": dict(res.labels), "kf": dict(res.kf),
                       "kf_examples": res.kf_examples, "samples": res.samples, "execs": count[0], "discards": dict(res.discards)}, f, default=str)
        os.replace(tmp, os.path.join(outdir, "stats.json"))

    def one(data):
        count[0] += 1
        if len(data) < 2:
            return
        mode = data[0] % 4
        if mode == 0:
            dialect = dialects[data[1] % len(dialects)] if data[1] < 200 else FAST[data[1] % 2]
            sql = data[2:].decode("utf-8", "replace")
            edits, lab = 99, "raw"
        else:
            fdp = atheris.FuzzedDataProvider(data[1:])
            idx = fdp.ConsumeIntInRange(0, len(s["pool"]) - 1)
            dsel = fdp.ConsumeIntInRange(0, 99)
            dialect = s["pool"][idx]["dialect"] if dsel < 35 else dialects[fdp.ConsumeIntInRange(0, len(dialects) - 1)]
            ops = [(fdp.ConsumeIntInRange(0, 8), fdp.ConsumeIntInRange(0, 10 ** 6), fdp.ConsumeIntInRange(0, 10 ** 6))
                   for _ in range(fdp.ConsumeIntInRange(0, 6))]
            sql, edits = C10._mutate(s["toks"][idx], ops, s["toks"])
            lab = "structured"
        if not sql.strip() or len(sql) > 6000:
            return
        # the property's input domain: a few hundred tokens, bracket nesting up to 30 (libFuzzer's repeat / copy mutations leave it easily)
        depth = deepest = 0
        for ch in sql:
            if ch in "([":
                depth += 1
                deepest = max(deepest, depth)
            elif ch in ")]":
                depth = max(0, depth - 1)
        if deepest > 30 or len(C10.TOK.findall(sql)) > 600:
            res.discard("fuzz_input_outside_the_size_or_nesting_bound")
            return
        has_meta = any(m in sql for m in ("{{", "{%", "{#", "'", '"', "`", "[", "$", "@", "\x00", "\\"))
        out = C10.analyse(sql, dialect)
        c = {"sql": sql, "dialect": dialect}
        nt = sql not in s["texts"] and (edits <= 3 or has_meta or out["kind"] == "ok")
        res.case(sql + "|" + dialect, nt, labels=["fuzz", "fuzz:" + lab, "fuzz_outcome:" + out["kind"] + (":" + out["exc"] if "exc" in out else "")],
                 sample=c)
        v = C10._judge_outcome(c, out, res, ctx)
        if v is not None:
            key = (out.get("exc"), out.get("site"))
            if key not in seen_sites:
                seen_sites.add(key)
                with open(os.path.join(outdir, "violations.jsonl"), "a") as f:
                    f.write(json.dumps(v, default=str) + "\n")
        if count[0] % 50 == 0 or count[0] >= runs:
            flush()

    argv = [sys.argv[0], corpus_dir, f"-runs={runs}", f"-seed={seed or 1}", f"-max_total_time={max_s}", "-max_len=1500",
            "-dict=" + os.path.join(outdir, "dict.txt"), "-timeout=120", "-rss_limit_mb=0", "-print_final_stats=1", "-verbosity=1"]
    atheris.Setup(argv, one)
    flush()
    atheris.Fuzz()
    return 0


if __name__ == "__main__":
    sys.exit(main())
