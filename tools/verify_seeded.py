#!/venv/bin/python
"""Confirm an independently written breaking change before it is kept under seeded/:
   fresh scratch worktree of /repo HEAD -> apply the diff -> suite still passes (425, the 4 known failures) -> demo fails ->
   revert -> demo passes.   usage: tools/verify_seeded.py <change.diff> <demo.py> <meta.json> <seeded-id> [--props C03,C06]
   On success copies patch.diff, the demo and meta.json (extended with what was run here) to /verif/seeded/<seeded-id>/ and runs the
   listed quick checks against the change (tools/sensitivity.py --patch)."""
import json, os, shutil, subprocess, sys, tempfile

HOME = os.path.dirname(os.path.dirname(os.path.abspath(__file__)))
KNOWN_FAIL = {"tests/core/test_drawing.py::test_handler", "tests/sql/column/test_column_select_column_dialect_specific.py::test_tsql_assignment_operator[tsql]",
              "tests/sql/table/multiple_statements/test_tmp_table.py::test_create_after_drop", "tests/sql/table/test_create.py::test_create_if_not_exist"}


def sh(cmd, cwd=None):
    r = subprocess.run(cmd, cwd=cwd, capture_output=True, text=True)
    return r.returncode, r.stdout + r.stderr


def main():
    diff, demo, meta, sid = [os.path.abspath(sys.argv[1]), os.path.abspath(sys.argv[2]), os.path.abspath(sys.argv[3]), sys.argv[4]]
    props = sys.argv[sys.argv.index("--props") + 1].split(",") if "--props" in sys.argv else []
    wt = tempfile.mkdtemp(prefix="verif_seedchk_", dir="/tmp")
    os.rmdir(wt)
    rc, out = sh(["git", "-C", "/repo", "worktree", "add", "-q", "--detach", wt, "HEAD"])
    assert rc == 0, out
    log = {}
    try:
        rc, out = sh(["/venv/bin/python", demo], cwd=wt)
        log["demo_without_change"] = rc
        rc_a, out_a = sh(["git", "-C", wt, "apply", diff])
        if rc_a:
            print("PATCH DOES NOT APPLY:", out_a)
            return 1
        rc, out = sh(["/venv/bin/python", "-m", "pytest", "-q", "-p", "no:cacheprovider", "-n", "8", "tests"], cwd=wt)
        if "passed" not in (out.strip().splitlines() or [""])[-1]:
            # collection errors seen when several suites run at once on this box (shared sqlite test artefacts): retry once, keep the first output
            log["suite_first_attempt"] = [l for l in out.splitlines() if "rror" in l][:8]
            rc, out = sh(["/venv/bin/python", "-m", "pytest", "-q", "-p", "no:cacheprovider", "-n", "8", "tests"], cwd=wt)
        failed = {l.split(" ")[1] for l in out.splitlines() if l.startswith("FAILED ")}
        log["suite_failed_beyond_known"] = sorted(failed - KNOWN_FAIL)
        log["suite_tail"] = out.strip().splitlines()[-1] if out.strip() else ""
        log["suite_errors"] = [l for l in out.splitlines() if l.startswith("ERROR ")][:5]
        if "425 passed" not in log["suite_tail"]:
            log["suite_failed_beyond_known"] = log["suite_failed_beyond_known"] + ["(suite did not report 425 passed)"]
        rc, out = sh(["/venv/bin/python", demo], cwd=wt)
        log["demo_with_change"] = rc
        log["demo_output"] = out[-600:]
    finally:
        sh(["git", "-C", "/repo", "worktree", "remove", "--force", wt])
        shutil.rmtree(wt, ignore_errors=True)
    ok = log["demo_without_change"] == 0 and log["demo_with_change"] != 0 and not log["suite_failed_beyond_known"]
    print(json.dumps(log, indent=1))
    if not ok:
        print("REJECTED")
        return 1
    d = os.path.join(HOME, "seeded", sid)
    os.makedirs(d, exist_ok=True)
    shutil.copy(diff, os.path.join(d, "patch.diff"))
    shutil.copy(demo, os.path.join(d, "demo.py"))
    m = json.load(open(meta))
    m["confirmed_here"] = {"suite": log["suite_tail"], "demo_without_change_exit": log["demo_without_change"], "demo_with_change_exit": log["demo_with_change"],
                           "how": "tools/verify_seeded.py: fresh worktree of /repo HEAD, git apply, pytest -n 8 tests, demo; revert; demo"}
    results = {}
    for pid in props:
        r = subprocess.run([os.path.join(HOME, "tools", "sensitivity.py"), "--patch", os.path.join(d, "patch.diff"), "--props", pid], capture_output=True, text=True)
        line = [l for l in r.stdout.splitlines() if pid in l]
        results[pid] = (line[0].split()[2] if line else "ERROR") if line else "ERROR"
        print(r.stdout.strip()[-300:])
    m["checks_run_against_it"] = results
    json.dump(m, open(os.path.join(d, "meta.json"), "w"), indent=1)
    print("KEPT", sid, results)
    return 0


if __name__ == "__main__":
    sys.exit(main())
