#!/bin/sh
# confirm and file the two round-4 changes of one property: tools/round4.sh C03 [props-to-run, comma separated]
HERE=$(cd "$(dirname "$0")/.." && pwd)
P=$1; PROPS=${2:-$P}
for k in 1 2; do
  [ -f /tmp/out4_$P/change$k.diff ] || continue
  "$HERE/tools/verify_seeded.py" /tmp/out4_$P/change$k.diff /tmp/out4_$P/demo$k.py /tmp/out4_$P/meta$k.json $P-agent-$((6+k)) --props $PROPS
done
