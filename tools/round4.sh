#!/bin/sh
# confirm and file the (up to two) changes a sub-agent wrote for one property:
#   tools/round4.sh C03 [props-to-run, comma separated] [out-dir prefix, default /tmp/out4_] [id offset, default 6]
HERE=$(cd "$(dirname "$0")/.." && pwd)
P=$1; PROPS=${2:-$P}; PRE=${3:-/tmp/out4_}; OFF=${4:-6}
for k in 1 2; do
  [ -f $PRE$P/change$k.diff ] || continue
  "$HERE/tools/verify_seeded.py" $PRE$P/change$k.diff $PRE$P/demo$k.py $PRE$P/meta$k.json $P-agent-$((OFF+k)) --props $PROPS
done
