"""pytest plugin: record every call of tests.helpers.assert_*_lineage_equal and LineageRunner(...) made by the repo's test-suite."""
import json, os, sys
OUT = os.environ["HARVEST_OUT"]
records = []
def _ser_tables(x):
    if x is None: return None
    return sorted(str(t) if not isinstance(t, str) else t for t in x)
def pytest_configure(config):
    import tests.helpers as H
    from sqllineage.core.metadata.dummy import DummyMetaDataProvider
    orig_t, orig_c = H.assert_table_lineage_equal, H.assert_column_lineage_equal
    def rec_t(sql, source_tables=None, target_tables=None, dialect="ansi", test_sqlfluff=True, test_sqlparse=True):
        records.append({"kind":"table","sql":sql,"sources":_ser_tables(source_tables),"targets":_ser_tables(target_tables),
                        "src_types":sorted({type(t).__name__ for t in (source_tables or [])}), "tgt_types":sorted({type(t).__name__ for t in (target_tables or [])}),
                        "dialect":dialect,"sqlfluff":test_sqlfluff,"sqlparse":test_sqlparse})
        return orig_t(sql, source_tables, target_tables, dialect, test_sqlfluff, test_sqlparse)
    def rec_c(sql, column_lineages=None, dialect="ansi", metadata_provider=None, test_sqlfluff=True, test_sqlparse=True):
        md = None
        if metadata_provider is not None:
            md = {"class": type(metadata_provider).__name__, "metadata": getattr(metadata_provider, "metadata", None)}
        records.append({"kind":"column","sql":sql,"lineage":[[list(s), list(t)] for s,t in (column_lineages or [])],
                        "dialect":dialect,"sqlfluff":test_sqlfluff,"sqlparse":test_sqlparse,"metadata":md})
        return orig_c(sql, column_lineages, dialect, metadata_provider, test_sqlfluff, test_sqlparse)
    H.assert_table_lineage_equal = rec_t
    H.assert_column_lineage_equal = rec_c
def pytest_runtest_setup(item):
    global _cur
    records.append({"kind":"_test","nodeid":item.nodeid})
def pytest_sessionfinish(session, exitstatus):
    with open(OUT,"w") as f:
        for r in records: f.write(json.dumps(r)+"\n")
