#!/venv/bin/python
"""Sensitivity of the checks: apply each deliberate property-breaking mutant (mutants/mutants.json or a patch file)
to a scratch copy of the repository (outside /repo and /verif), run the listed properties' quick checks with
VERIF_REPO=<scratch>, expect exit 1 + VIOLATION, delete the copy.

  tools/sensitivity.py                      all mutants
  tools/sensitivity.py --only drop_deg1     one mutant
  tools/sensitivity.py --patch seeded/x/patch.diff --props C03,C06
"""
import argparse, json, os, shutil, subprocess, sys, tempfile, time

HOME = os.path.dirname(os.path.dirname(os.path.abspath(__file__)))
REPO = os.environ.get("VERIF_REPO_SRC", "/repo")


def scratch_copy():
    d = tempfile.mkdtemp(prefix="verif_mut_", dir="/tmp")
    shutil.copytree(os.path.join(REPO, "sqllineage"), os.path.join(d, "sqllineage"),
                    ignore=shutil.ignore_patterns("__pycache__"))
    return d


def run_check(pid, scratch, tier="quick", seed="1"):
    env = dict(os.environ, VERIF_REPO=scratch, VERIF_SEED=seed, VERIF_EVIDENCE_DIR=os.path.join(scratch, "evidence"),
               VERIF_REPLAY_DIR=os.path.join(scratch, "replays"))
    t0 = time.time()
    r = subprocess.run([os.path.join(HOME, "check"), pid, "--tier", tier], env=env, capture_output=True, text=True)
    viol = [l for l in r.stdout.splitlines() if l.startswith("VIOLATION")]
    return r.returncode, viol, time.time() - t0, r.stdout[-1500:] + r.stderr[-1500:]


def main():
    ap = argparse.ArgumentParser()
    ap.add_argument("--only")
    ap.add_argument("--patch")
    ap.add_argument("--props")
    ap.add_argument("--tier", default="quick")
    ap.add_argument("--seed", default="1")
    ap.add_argument("-v", action="store_true")
    a = ap.parse_args()
    muts = []
    if a.patch:
        muts = [{"name": os.path.basename(os.path.dirname(os.path.abspath(a.patch))) or a.patch, "patch": os.path.abspath(a.patch),
                 "props": (a.props or "").split(",")}]
    else:
        muts = json.load(open(os.path.join(HOME, "mutants", "mutants.json")))
        if a.only:
            muts = [m for m in muts if m["name"] in a.only.split(",")]
        if a.props:
            want = set(a.props.split(","))
            muts = [dict(m, props=[p for p in m["props"] if p in want]) for m in muts if want & set(m["props"])]
    ok = True
    for m in muts:
        d = scratch_copy()
        try:
            if "patch" in m:
                r = subprocess.run(["patch", "-p1", "-s", "-d", d, "-i", m["patch"]], capture_output=True, text=True)
                if r.returncode:
                    print(f"{m['name']}: PATCH-FAILED {r.stdout} {r.stderr}")
                    ok = False
                    continue
            else:
                p = os.path.join(d, m["file"])
                s = open(p).read()
                if m["old"] not in s:
                    print(f"{m['name']}: PATTERN-NOT-FOUND")
                    ok = False
                    continue
                open(p, "w").write(s.replace(m["old"], m["new"], 1))
            for pid in m["props"]:
                rc, viol, dt, tail = run_check(pid, d, a.tier, a.seed)
                verdict = "CAUGHT" if rc == 1 and viol else ("HARNESS-ERROR" if rc == 2 else "MISSED")
                if verdict != "CAUGHT":
                    ok = False
                print(f"{m['name']:28s} {pid} {verdict:8s} {dt:6.1f}s  {viol[0] if viol else ''}", flush=True)
                if a.v or verdict == "HARNESS-ERROR":
                    print(tail)
        finally:
            shutil.rmtree(d, ignore_errors=True)
    return 0 if ok else 1


if __name__ == "__main__":
    sys.exit(main())
