#!/bin/sh
# run every check's quick tier at the given seeds with evidence/replays redirected to a scratch dir; prints one line per run
# usage: tools/runall.sh "2 3" [ids...]
HERE=$(cd "$(dirname "$0")/.." && pwd)
SEEDS=${1:-"2 3"}; shift
IDS=${*:-"C01 C02 C03 C04 C05 C06 C07 C08 C09 C10 C11 C12 C13 C14 C15 C16 C17 C18"}
OUT=${RUNALL_OUT:-/tmp/verif_runall}
mkdir -p "$OUT"
for s in $SEEDS; do for id in $IDS; do
  t0=$(date +%s)
  VERIF_SEED=$s VERIF_EVIDENCE_DIR="$OUT/ev_$s" VERIF_REPLAY_DIR="$OUT/replays_$s" "$HERE/check" "$id" --tier "${TIER:-quick}" > "$OUT/$id.$s.log" 2>&1
  rc=$?
  echo "$id seed=$s rc=$rc $(( $(date +%s) - t0 ))s $(grep -c '^VIOLATION' "$OUT/$id.$s.log") violations | $(grep '^# C' "$OUT/$id.$s.log" | tail -1)"
done; done
