#!/usr/bin/env python3
"""Re-run every kept seeded change against the quick check of its property (and of the other properties its meta lists) with the machinery as it is now;
updates seeded/<id>/meta.json 'checks_run_against_it' and regenerates seeded/RESULTS.md.   usage: tools/rerun_seeded.py [id-prefix ...]"""
import glob, json, os, re, subprocess, sys
HOME = os.path.dirname(os.path.dirname(os.path.abspath(__file__)))
sel = sys.argv[1:]
for f in sorted(glob.glob(os.path.join(HOME, "seeded", "*", "meta.json"))):
    sid = os.path.basename(os.path.dirname(f))
    if sel and not any(sid.startswith(s) for s in sel):
        continue
    m = json.load(open(f))
    props = sorted(set([m.get("property")] + [k for k, v in (m.get("checks_run_against_it") or {}).items() if v == "CAUGHT"]) - {None})
    patch = os.path.join(os.path.dirname(f), "patch.diff")
    r = subprocess.run([sys.executable, os.path.join(HOME, "tools", "sensitivity.py"), "--patch", patch, "--props", ",".join(props)], capture_output=True, text=True, cwd=HOME)
    res = dict(m.get("checks_run_against_it") or {})
    for line in r.stdout.splitlines():
        mm = re.match(r"^(\S+)\s+(C\d\d)\s+(CAUGHT|MISSED|ERROR\S*)", line)
        if mm and mm.group(1) == sid:
            res[mm.group(2)] = mm.group(3)
    m["checks_run_against_it"] = res
    json.dump(m, open(f, "w"), indent=1)
    print(sid, {p: res.get(p) for p in props}, flush=True)
subprocess.run([sys.executable, os.path.join(HOME, "tools", "seeded_results.py")], cwd=HOME)
