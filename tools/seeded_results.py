#!/usr/bin/env python3
"""Regenerate seeded/RESULTS.md from seeded/*/meta.json"""
import glob, json, os
HOME = os.path.dirname(os.path.dirname(os.path.abspath(__file__)))
rows = []
for f in sorted(glob.glob(os.path.join(HOME, "seeded", "*", "meta.json"))):
    m = json.load(open(f))
    sid = os.path.basename(os.path.dirname(f))
    res = m.get("checks_run_against_it", {})
    rows.append((sid, m.get("property", "?"), (m.get("summary") or "")[:260].replace("\n", " ").replace("|", "/"), (m.get("needs") or "")[:260].replace("\n", " ").replace("|", "/"),
                 "; ".join(f"{k}: {v}" for k, v in res.items()).replace("\n", " ").replace("|", "/"), (m.get("history") or "caught as built").replace("\n", " ").replace("|", "/")))
with open(os.path.join(HOME, "seeded", "RESULTS.md"), "w") as out:
    out.write("# Seeded changes written by independent sub-agents (one property text + a scratch worktree each)\n\n"
              "Every change below was confirmed here with tools/verify_seeded.py (fresh worktree of /repo HEAD: patch applies, suite keeps 425 passes + the 4 known failures, "
              "demo exits non-zero with the change and 0 without) and then the listed quick checks were run against it (tools/sensitivity.py --patch). "
              "'MISSED at first' entries say what was added to the machinery; the final state is the last word of each cell.\n\n"
              "| id | property | what the change does | what it needs to manifest | checks run against it (final machinery) | history |\n|---|---|---|---|---|---|\n")
    for r in rows:
        out.write("| " + " | ".join(r) + " |\n")
print(len(rows), "seeded changes")
