#!/venv/bin/python
"""Regenerate the cell list of K-quoted-case@C16 in known_findings.json from the tree under test (run by hand on the pinned tree only, after
looking at every new cell: each must be the double-normalisation symptom - the expected name with a quoted part lower-cased)."""
import json, os, sys
HOME = os.path.dirname(os.path.dirname(os.path.abspath(__file__)))
sys.path.insert(0, HOME)
from vlib import runner
runner.setup_paths(); runner.quiet()
from vlib import rewrite
from vlib.props import C16
cells, bad = {}, []
for dialect in C16.DIALECT_QUOTES:
    for sp in C16.spellings(dialect):
        for (pname, build, parts_matter) in C16.positions():
            for n in ((1, 2, 3) if parts_matter else (1,)):
                sql, checks = build(sp, n)
                if not rewrite.parses(sql, dialect) or (sp[1] is not None and not rewrite.count_quoted_identifiers(sql, dialect)):
                    continue
                d = C16.evaluate(sql, dialect, checks)
                if d is None:
                    continue
                c = {"sql": sql, "dialect": dialect}
                exp, rep = d.get("expected"), d.get("reported")
                flat = str(rep).lower()
                lowered = d.get("what") != "raises" and all(x.lower() in flat for x in (exp if isinstance(exp, list) else [exp]) if isinstance(x, str))
                if sp[1] is None or sp[0] == "lower" or not lowered:
                    bad.append((dialect, pname, sp, n, d))
                    continue
                cells[C16.cell_key(c)] = runner.h8(d)
print(len(cells), "cells;", len(bad), "failing cells that are NOT the listed symptom:")
for b in bad[:20]:
    print("  ", b)
path = os.path.join(HOME, "known_findings.json")
data = json.load(open(path))
for e in data["findings"]:
    if e["id"] == "K-quoted-case@C16":
        e["cells"] = dict(sorted(cells.items()))
json.dump(data, open(path, "w"), indent=1)
