#!/usr/bin/env python3
"""Generate MANIFEST.json from the table below (keeps the manifest valid and in one place)."""
import json, os
HOME = os.path.dirname(os.path.dirname(os.path.abspath(__file__)))
BASE = ("cd /repo && /venv/bin/python -m pytest -ra -q -p no:cacheprovider --timeout=900 "
        "--continue-on-collection-errors --junitxml=/tmp/verif_baseline_off.junit.xml")
TB = ("trusted base: CPython, networkx, Hypothesis, sqlfluff's lexer/parser (decides which texts a dialect accepts), and the "
      "reference model in the property's module under vlib/props/")
CHECKS = {
 "C03": dict(cat="exploration", tech="bounded-exhaustive history enumeration + Hypothesis random SQL scripts against a set-based reference model",
    text="Every history of <=3 (quick) / <=4 (thorough) abstract statements over 3 tables (64k / 2.6M) is folded by the real code and compared with an independent model of edges and source/target/intermediate roles; random 2-8 statement scripts in real SQL are compared with the same model. Complete within the bound, sampled beyond it. A third stream enumerates every (statement, statement) prefix x every ordered pair of RENAME pairs in one statement (left-to-right semantics).",
    ref="DESIGN.md section 4 C03"),
}
CHECKS["C15"] = dict(cat="exploration", tech="deterministic baton scheduler over real threads: exhaustive interleaving enumeration (stateless DFS) + Hypothesis random schedules against a per-thread scope-stack model",
    text="All sub-operation interleavings of all pairs of <=2-operation thread programs are executed with real threads under a scheduler the harness owns, plus pre-emption-bounded 3-operation pairs, random 2-3 thread schedules with thread-identifier reuse, the real singleton end to end, and every documented value form for coercion; after every step every live thread's read of every key is compared with a reference model. Complete within the stated bounds only. A boundary stream checks that a lazily evaluated runner built on one side of a scope / thread boundary and evaluated on the other sees the configuration in effect where and when it is evaluated.",
    ref="DESIGN.md section 4 C15")
CHECKS["C17"] = dict(cat="exploration", tech="bounded-exhaustive path enumeration against a scratch tree with marker files; disclosure oracle on WSGI responses",
    text="Every path of <=4 (quick) / <=5 (thorough) segments over the adversarial segment alphabet, absolute and relative, is sent to every route of the WSGI app; any marker token or directory listing from outside the route's root is a violation. Exhaustive within the bound (1.2M / 20M requests). Home spellings (~, $HOME, %7E; HOME outside the roots) and the root setting '.' with the process inside it are enumerated too, and root histories (the long-lived application's root re-pointed between requests: 12 ordered pairs of roots x every path of <=2 segments x POST route, judged against the current root).",
    ref="DESIGN.md section 4 C17")
CHECKS["C05"] = dict(cat="exploration", tech="Hypothesis script assembly with separator/comment noise; splitter oracle + differential against per-statement analysis combined through SQLLineageHolder.of",
    text="Scripts of 1-5 calibrated corpus statements joined by every separator/noise variant (semicolons in comments and literals, comment-only statements, tsql no-semicolon mode) must report exactly the generated statements in order and the same tables, edges and column paths as the combination of the statements analysed alone. Sampled (2k quick / 30k thorough scripts).",
    ref="DESIGN.md section 4 C05")
CHECKS["C07"] = dict(cat="exploration", tech="metamorphic testing: lexer-driven meaning-preserving rewrites of corpus SQL (Hypothesis random edits; thorough: every single-site edit)",
    text="Each corpus statement (test-suite SQL in its dialect + TPC-DS) is rewritten at token level (whitespace, inserted comments, a comment as the only separator between two words, case of unquoted words, quoting of lower-case identifiers, trailing semicolons) and must give the same tables and column pairs. Quick samples 1-8 random edits per case plus all-sites-at-once; thorough enumerates every single-site rewrite. The legacy analyzer takes part with every ansi corpus statement it supports and with generator statements.",
    ref="DESIGN.md section 4 C07")
CHECKS["C10"] = dict(cat="exploration", tech="structure-aware mutation fuzzing (Hypothesis) plus coverage-guided fuzzing (atheris / libFuzzer, 16 campaigns, sqllineage-only instrumentation) with exception-type oracle and call-site bucketing; silent-mode differential",
    text="Mutated corpus statements (token delete/duplicate/swap/insert of SQL, quoting and templating metacharacters, cross-over, truncation, bracket nesting) under all 29 dialects must end in a result or a library exception; parser-rejected single statements must be InvalidSyntaxException; silent mode must equal the script without the unsupported statement and warn. Sampled; biased to near-valid SQL. Also about 190 hand-written dialect-specific statement forms under every dialect in every run, and further accessors of the same runner after the first one raised. A coverage-guided stream (atheris: raw-text mode with a token dictionary and a structured token-operation mode, empty and seeded corpora, the same oracle inside the target, new escape sites re-checked in a fresh process and minimised by ddmin) adds about 9k executions per quick run and 400k per thorough run.",
    ref="DESIGN.md section 4 C10")
CHECKS["C11"] = dict(cat="exploration", tech="differential across fresh interpreter processes with different PYTHONHASHSEED + permuted/repeated accessor calls; corpus and Hypothesis-generated set-heavy scripts",
    text="Every corpus case (with its dialect and metadata), TPC-DS script and generated set-heavy script is dumped canonically in separate interpreters under 4 (quick) / 32 (thorough) hash seeds and under permuted, repeated accessor orders; all dumps must be identical (anonymous subquery names canonicalised, exports compared as sets). Sampled inputs; the hash-seed dimension is sampled too.",
    ref="DESIGN.md section 4 C11")
CHECKS["C12"] = dict(cat="exploration", tech="Hypothesis-generated run histories executed in pristine forked processes against per-run baselines from fresh processes; fault injection through the provider extension point; threaded batches",
    text="Histories of 2-12 runs (shared default / long-lived / fresh / faulty providers, scripts failing at each position, config scopes, tsql split cache, silent and strict runs of the same scripts, scripts re-creating tables the provider knows) run in one pristine process; after every run the observation must equal the run's baseline from a fresh process and providers must answer like fresh ones. 16-thread batches are compared with sequential baselines (OS scheduler: weak evidence). Sampled histories. The long-lived provider is reused in both bundled kinds (dict-backed and SQLAlchemy on in-memory sqlite).",
    ref="DESIGN.md section 4 C12")
CHECKS["C01"] = dict(cat="exploration", tech="grammar-based generation from a typed SQL IR (bounded-exhaustive skeleton product + Hypothesis random statements) against an independent reference table semantics, per accepting dialect, with a parse-shape guard",
    text="Statements are IR values, so the expected source/target tables are known without asking sqllineage; every combination of statement kind x FROM shape x subquery position x nesting (thorough: all, under all 28 dialects that accept it; quick: a seeded fifth under ansi + 2 rotating dialects) plus random statements to depth 2-3 must report exactly the expected tables. Complete within the skeleton bound, sampled beyond. Also: statement styles only some dialects have (TEMPORARY / MATERIALIZED / REPLACE INTO ...) under every accepting dialect, dialect-specific statements (COPY, directory targets, path sources, UPDATE JOIN, partition exchange, quoted multi-part names) as text templates, and probes of subquery positions outside the product (each a listed finding, with controls).",
    ref="DESIGN.md section 4 C01")
CHECKS["C02"] = dict(cat="exploration", tech="grammar-based generation from a typed SQL IR (bounded-exhaustive skeleton product + Hypothesis random statements) against an independent scope-resolution reference semantics for column dataflow",
    text="Every combination of select-item kind x scope shape x nesting x set-operation arity x explicit column list (2.4k skeletons; quick: a seeded fifth) and random statements to expression depth 3 must report exactly the (root, target column) pairs the IR's dataflow gives, per accepting dialect. The generator is restricted to where the property determines the answer; known-defect shapes are excluded by construction and replayed from the findings file. Also UPDATE ... FROM / MERGE ... USING statements (FROM shape x assignments x target alias, inner/outer name collisions, several WHEN clauses, expression-valued assignments as finding probes), and a lateral-column-alias stream (flag on + provider: a select item referencing an earlier alias, 16 expression pairs x 6 ways of naming the target columns).",
    ref="DESIGN.md section 4 C02")
CHECKS["C06"] = dict(cat="exploration", tech="invariant (validity-predicate) checking over every result of a generated + harvested result pool, through public accessors and the public graph assembler",
    text="Path well-formedness, leaf/root/table-level consistency and combined-graph retrievability/ownership invariants are evaluated on every result of the corpus (own dialect and ansi, with test metadata), TPC-DS and generated scripts. Sampled inputs, invariants complete per result.",
    ref="DESIGN.md section 4 C06")
CHECKS["C09"] = dict(cat="exploration", tech="differential testing across 28 sqlfluff dialects and the sqlparse analyzer on Hypothesis-generated core IR statements, arbitrated by the IR reference semantics, with a per-dialect parse-shape guard",
    text="Each generated core statement is analysed under every dialect whose own parser accepts it and under the legacy analyzer; tables and column pairs (tables only for the legacy analyzer) must agree; the side that differs from the IR reference is reported. Sampled (quick ~190 statements x up to 29 configurations).",
    ref="DESIGN.md section 4 C09")
CHECKS["C18"] = dict(cat="exploration", tech="invariant (validity-predicate) checking of both export levels, the text summary and the /lineage route over a generated + harvested result pool",
    text="Unique ids, referential integrity of edges and compound parents, table nodes == summaries, column edges == hops of all reported paths, parent == owner, sorted duplicate-free text summary and route/runner agreement are evaluated on every result of the pool. Sampled inputs, invariants complete per result.",
    ref="DESIGN.md section 4 C18")
CHECKS["C14"] = dict(cat="exploration", tech="metamorphic testing on the SQL IR: analysis under a default schema vs the IR with every unqualified table explicitly qualified; both mechanisms (scoped override, environment variable in fresh interpreters)",
    text="For generated statements of every supported kind, C03-style scripts with DROP/RENAME and dialect-specific creation sites (vertica swap partitions, spark directory targets, legacy analyzer), the canonical dump under default schema S (lower/UPPER/Mixed/quoted, fresh or already used as qualifier) must equal the dump of the explicitly qualified IR; with no default, substituting the placeholder must give the same dump. Sampled. Mechanisms also include the environment variable with a scoped override of another setting on top and a scoped default over a different environment default; a with-metadata stream has the tables known to the provider under the default schema's name.",
    ref="DESIGN.md section 4 C14")
CHECKS["C04"] = dict(cat="exploration", tech="Hypothesis-generated multi-statement chains on the SQL IR; oracle = relational composition of the per-statement reference dataflows (with the session metadata earlier statements establish)",
    text="Scripts of 2-4 generated statements whose later statements read earlier targets (linear, diamond, fan-in/out, re-written intermediates, through derived tables) are analysed with and without a metadata provider; the reported paths (subquery columns removed) must be exactly the simple root->leaf paths of the composed per-statement reference graph, including star expansion and unqualified-column attribution from session metadata. Sampled.",
    ref="DESIGN.md section 4 C04")
CHECKS["C08"] = dict(cat="exploration", tech="metamorphic testing on the SQL IR: capture-free renaming of all statement-local names, alias add/remove, AS toggling",
    text="Generated statements are compared with their alpha-renamed versions (names from fresh, MixedCase, keyword-like, unused-table and - as a finding probe - used-table pools), with aliases added/removed and with AS toggled; tables and end-to-end column pairs must be identical. Sampled. Also crafted multi-block statements incl. recursive CTEs, and a text-template stream for aliased LATERAL derived tables under the five dialects that have them.",
    ref="DESIGN.md section 4 C08")
CHECKS["C13"] = dict(cat="exploration", tech="bounded-exhaustive knowledge assignments over shape templates + Hypothesis, against the metadata-aware reference semantics; differential with/without provider and between the two bundled providers",
    text="Every shape template x every known/unknown assignment (with column-overlap patterns) over <=3 scope tables and the target is analysed with and without metadata: table lineage must not change, unknown-only statements must equal the no-provider result, column pairs must equal the metadata-aware reference model, and the dict-backed and SQLAlchemy (in-memory sqlite) providers must agree. Also multi-statement scripts (each template between extra write-only / read-only / DROP / feeding statements) judged on table lineage with and without provider, and known targets whose columns are the select list's names in another order. Every enumerated case is judged again over three-part names (dict-backed provider) and under other dialects (3 rotating in quick, 12 in thorough); explicit column lists that permute a known target's columns must win.",
    ref="DESIGN.md section 4 C13")
CHECKS["C16"] = dict(cat="exploration", tech="bounded-exhaustive spelling x position x dialect enumeration against a reference normalisation; Hypothesis on the normalisation helper and on equality/hash of model objects",
    text="Every case pattern x quote style x 1-3 name parts x syntactic position (FROM, target, column, qualifier, partial qualifier, qualified wildcard, alias, INSERT list, CTE name, write-then-read chains, session-metadata chains with a provider in use) under 7 dialects covering the three quote styles must print the reference-normalised entity and connect chains; the helper must normalise well-formed spellings as specified; equal entities must hash equally. The listed finding is identified cell-exactly (statement, dialect, discrepancy hash).",
    ref="DESIGN.md section 4 C16")
NA = {}
def main():
    props = [json.loads(l)["id"] for l in open(os.path.join(HOME, "properties.jsonl"))]
    checks = []
    for pid in props:
        if pid not in CHECKS: continue
        c = CHECKS[pid]
        checks.append({
            "property_id": pid,
            "quick_cmd": f"./check {pid} --tier quick",
            "thorough_cmd": f"./check {pid} --tier thorough",
            "evidence_file": f"/verif/evidence/{pid}.json",
            "replay_cmd_template": f"./check {pid} --replay {{path}}",
            "engine": "vlib",
            "level_claimed": {"category": c["cat"], "text": c["text"], "design_ref": c["ref"]},
            "level_note": c.get("note", TB),
            "technique": c["tech"],
        })
    na = [{"property_id": p, "reason": NA.get(p, "check not built yet in this revision of /verif (planned in DESIGN.md section 4); not claimed until it is")}
          for p in props if p not in CHECKS]
    m = {
        "version": 1,
        "setup_cmd": "./setup.sh",
        "hooks": {"guard": "SQLLINEAGE_VERIF", "enable": "no source hooks are needed: the harness wraps public entry points (LineageAnalyzer.analyze, MetaDataProvider session methods, SQLLineageConfig protocol calls) from outside at import time; checks import /repo's working tree directly (pure Python, nothing to build)",
                  "baseline_off_cmd": BASE, "source_commits": [], "add_only": True},
        "engines": [{"name": "vlib", "path": "/verif/vlib", "serves_properties": [c["property_id"] for c in checks],
                     "kind_free_text": "property-based testing and fuzzing harness (Hypothesis strategies, bounded-exhaustive enumerators, reference models, metamorphic/differential oracles), 16-way sharded"}],
        "checks": checks,
        "not_applicable": na,
        "notes": "All checks: ./check <ID> --tier quick|thorough; honours VERIF_SEED and VERIF_TIER; exit 0 held / 1 VIOLATION / 2 harness error. Known findings: known_findings.json. Fix commits in /repo are listed there under 'fixed'.",
    }
    json.dump(m, open(os.path.join(HOME, "MANIFEST.json"), "w"), indent=1)
    print("checks:", [c["property_id"] for c in checks], "not claimed:", [x["property_id"] for x in na])
if __name__ == "__main__":
    main()
